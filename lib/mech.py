"""Mechanism traces: projection of the hook events into per-connection segments for DriverTrace.tla.
Pure renaming / regrouping - nothing about the expected behaviour is added here."""
import json

MAX_SLOTS = 48      # = DriverTrace!MaxSlots


def segments(path):
    """Returns a list of segments; each is a list of event dicts starting with m_reset, ending with m_end."""
    by = {}
    with open(path) as f:
        for line in f:
            line = line.strip()
            if not line:
                continue
            e = json.loads(line)
            by.setdefault(e["c"], []).append(e)
    segs = []
    for c in sorted(by):
        evs = sorted(by[c], key=lambda e: e["seq"])
        out = [{"ev": "m_reset", "c": c}]
        slot_of, free, nslots = {}, [], {}
        for e in evs:
            e = dict(e)
            if "matched" in e:
                e["match"] = e.pop("matched")
            if "id" in e:
                e["id"] += 1                  # the model keeps 0 for "no stream" (NextOf)
            if "call" in e:
                call = e["call"]
                if e["ev"] == "a_call":
                    # alpha-renaming: a finished call's name is reused (kind-specific pools keep Wants constant)
                    kind = "uni" if e["kind"] == 0 else "bi"
                    pool = [s for s in free if s[0] == kind]
                    if pool:
                        s = min(pool)
                        free.remove(s)
                    else:
                        nslots[kind] = nslots.get(kind, 0) + 1
                        if nslots[kind] > MAX_SLOTS:
                            raise ValueError("more than %d concurrent %s calls on one connection" % (MAX_SLOTS, kind))
                        s = (kind, nslots[kind])
                    slot_of[call] = s
                s = slot_of.get(call)
                if s is None:
                    s = ("uni", 0)            # an event of a call never announced: the validator will refuse it
                e["call"] = list(s)
                if e["ev"] == "a_drop" or (e["ev"] == "a_recv" and e.get("match") == 1):
                    free.append(s)
            out.append(e)
        out.append({"ev": "m_end", "c": c})
        segs.append(out)
    return segs


def write(segs, path):
    with open(path, "w") as f:
        for s in segs:
            for e in s:
                f.write(json.dumps(e) + "\n")
