"""Scenario generators for the end-to-end harness. They produce *inputs* (what the
peer and the application do); expectations live in the TLA+ monitors."""
import random


def varint(v, n=None):
    if n is None:
        n = 1 if v < 64 else 2 if v < 16384 else 4 if v < (1 << 30) else 8
    tag = {1: 0, 2: 1, 4: 2, 8: 3}[n]
    b = list(v.to_bytes(n, "big"))
    b[0] = (b[0] & 0x3F) | (tag << 6)
    return b


def frame(ty, payload):
    return varint(ty) + varint(len(payload)) + list(payload)


def wt_uni_preamble(sid):
    return varint(0x54) + varint(sid)


def wt_bi_preamble(sid):
    return varint(0x41) + varint(sid)


def capsule(ty, value):
    return varint(ty) + varint(len(value)) + list(value)


def close_capsule_frame(code, reason):
    return frame(0, capsule(0x2843, list(code.to_bytes(4, "big")) + list(reason)))


def v62(v):
    return [v >> 31, v & 0x7FFFFFFF]


def step(who, a, **kw):
    d = {"who": who, "a": a}
    d.update(kw)
    return d


def sleep(ms):
    return {"who": "h", "a": "sleep", "ms": ms}


SETTINGS_PAYLOAD = []
for _i, _v in [(0x01, 0), (0x07, 0), (0x08, 1), (0x33, 1), (0x2B603742, 1), (0xC671706A, 1)]:
    SETTINGS_PAYLOAD += varint(_i) + varint(_v)


def pick(rng, xs, k):
    xs = list(xs)
    if k >= len(xs):
        return xs
    return rng.sample(xs, k)


# ----------------------------------------------------------------------------- C04

def c04(tier, seed):
    rng = random.Random(seed * 7919 + 4)
    styles = []
    codes = [0, 1, 255, 256, 0x10C, 65535, 1 << 31, (1 << 32) - 1]
    reasons = [b"", b"x", "grüß \U0001F44B".encode(), b"r" * 1023, b"r" * 1024]
    for c in codes:
        for r in reasons:
            styles.append(("capsule", {"bytes": close_capsule_frame(c, r)}))
    # a GREASE frame and an unknown capsule before the close capsule change nothing
    styles.append(("capsule_after_noise",
                   {"bytes": frame(0x21, b"zz") + frame(0, capsule(0x1234, b"abc")) + close_capsule_frame(77, b"after noise")}))
    # ... and after it in the same DATA frame: the capsule's own length bounds the reason
    styles.append(("capsule", {"bytes": frame(0, capsule(0x2843, list((4242).to_bytes(4, "big")) + list(b"exact")) + capsule(0x1234, b"tail"))}))
    styles.append(("capsule", {"bytes": frame(0, capsule(0x2843, list((7).to_bytes(4, "big"))) + [0x21, 0x03, 1, 2, 3])}))
    styles.append(("fin", {}))
    for c in [0, 0x10C, (1 << 62) - 1]:
        styles.append(("reset", {"code": c}))
    styles.append(("fin_in_frame", {"bytes": [0x00, 0x08, 0x68, 0x43]}))
    styles.append(("fin_in_frame", {"bytes": [0x00]}))
    styles.append(("fin_in_frame", {"bytes": [0x40]}))
    styles.append(("bad_capsule", {"bytes": close_capsule_frame(1, b"r" * 1025)}))
    # the 1024 limit is in bytes, not characters
    styles.append(("capsule", {"bytes": close_capsule_frame(9, "\u00e9".encode() * 512)}))
    styles.append(("capsule", {"bytes": close_capsule_frame(9, "\U0001F600".encode() * 256)}))
    styles.append(("bad_capsule", {"bytes": close_capsule_frame(1, "\u00e9".encode() * 513)}))
    styles.append(("bad_capsule", {"bytes": close_capsule_frame(1, "\u00e9".encode() * 600)}))
    styles.append(("bad_capsule", {"bytes": close_capsule_frame(1, "\U0001F600".encode() * 257)}))
    styles.append(("bad_capsule", {"bytes": close_capsule_frame(1, b"\xff\xfe")}))
    styles.append(("bad_capsule", {"bytes": close_capsule_frame(1, b"\xe2\x82")}))
    styles.append(("bad_capsule", {"bytes": frame(0, capsule(0x2843, b"\x00\x00\x01"))}))
    styles.append(("bad_capsule", {"bytes": frame(0, capsule(0x2843, b""))}))
    # (incl. values that coincide with HTTP/3 error codes: an application code is never reinterpreted)
    for c in [0, 63, 64, 0x100, 0x101, 0x10C, 0x33, 16383, 16384, (1 << 30) - 1, 1 << 30, (1 << 32) + 12345, (1 << 40) + 7, (1 << 62) - 1]:
        for r in [b"", b"bye", bytes(range(256))[:200]]:
            styles.append(("quic_close", {"code": c, "reason": list(r)}))
    points = ["pending", "streams", "later_only", "idle_long"]
    roles = ["server", "client"]
    combos = [(ro, p, st) for ro in roles for p in points for st in styles]
    if tier == "quick":
        # every style at least once, spread over roles/points
        chosen = []
        for i, st in enumerate(styles):
            chosen.append((roles[i % 2], points[(i // 2) % 4], st))
        chosen += pick(rng, combos, 30)
        combos = chosen
    out = []
    for n, (role, point, (style, par)) in enumerate(combos):
        steps = []
        if point in ("pending", "streams", "idle_long"):
            steps += [step("app", "spawn", op="accept_uni", tag="w1", ms=6000),
                      step("app", "spawn", op="accept_bi", tag="w2", ms=6000),
                      step("app", "spawn", op="recv_dgram", tag="w3", ms=6000)]
        if point == "streams":
            sid = 0
            steps += [step("peer", "open_uni", tag="pu"),
                      step("peer", "write", tag="pu", bytes=wt_uni_preamble(sid) + [1, 2, 3]),
                      step("app", "open_uni", tag="au"),
                      step("app", "write", tag="au", len=20, salt=1),
                      step("app", "open_bi", tag="ab"),
                      step("app", "write", tag="ab", len=5, salt=2)]
        steps.append(sleep(200 if point == "idle_long" else 40))
        # the peer terminates
        if style in ("capsule", "capsule_after_noise", "bad_capsule"):
            steps.append(step("peer", "write", tag="req", bytes=par["bytes"]))
        elif style == "fin":
            steps.append(step("peer", "fin", tag="req"))
        elif style == "reset":
            steps.append(step("peer", "reset", tag="req", code=v62(par["code"])))
        elif style == "fin_in_frame":
            steps.append(step("peer", "write", tag="req", bytes=par["bytes"]))
            steps.append(sleep(30))
            steps.append(step("peer", "fin", tag="req"))
        elif style == "quic_close":
            steps.append(step("peer", "close", code=v62(par["code"]), reason=par["reason"]))
        for t in ("w1", "w2", "w3"):
            if point != "later_only":
                steps.append(step("app", "await", tag=t, ms=7000))
        if point == "later_only":
            steps.append(sleep(150))
        steps += [step("app", "accept_uni", tag="l1", ms=5000),
                  step("app", "accept_bi", tag="l2", ms=5000),
                  step("app", "recv_dgram", tag="l3", ms=5000)]
        out.append({"scn": "C04-%04d" % n, "role": role, "peer": "raw",
                    "meta": {"prop": "C04", "style": style, "point": point},
                    "steps": steps})
    return out


# ----------------------------------------------------------------------------- C01

W = 1_250_000   # quinn's default per-stream receive window


def c01(tier, seed):
    rng = random.Random(seed * 7919 + 1)
    out = []
    n = 0

    def add(role, peer, steps, meta, cfg=None):
        nonlocal n
        s = {"scn": "C01-%04d" % n, "role": role, "peer": peer, "meta": dict(meta, prop="C01"),
             "steps": steps}
        if cfg:
            s["cfg"] = cfg
        out.append(s)
        n += 1

    napi = [0]
    # (i) two wtransport endpoints
    lens_small = [0, 1, 2, 63, 64, 65, 16383, 16384, 65536]
    lens_big = [W - 1, W, W + 1, 3 * W]
    cases = []
    for role in ("client", "server"):
        for kind in ("uni", "bi"):
            for ln in lens_small + lens_big:
                cases.append((role, kind, ln))
    if tier == "quick":
        keep = [c for c in cases if c[2] in (0, 1, 64, 16384)] + \
               [("client", "bi", W + 1), ("server", "uni", 3 * W), ("server", "bi", 65536), ("client", "uni", W)]
        cases = keep
    for (role, kind, ln) in cases:
        chunks = [0]
        if ln and ln <= 65:
            chunks += [1]
        if ln >= 2:
            chunks += [max(1, ln // 2), 1 + rng.randrange(min(ln, 70000))]
        bufs = [4096, 65536, 7, 2] + ([1] if ln <= 65 else [])
        if tier == "quick":
            chunks = [rng.choice(chunks)]
            bufs = [rng.choice(bufs)]
        for chunk in chunks:
            for buf in (bufs if tier != "quick" else bufs[:1]):
                if ln > 100000 and buf < 4096:
                    continue
                salt = rng.randrange(200)
                op_open = "open_" + kind
                op_acc = "accept_" + kind
                # which of the stream's interfaces carries the bytes (own methods / tokio traits / vectored)
                napi[0] += 1
                wapi = ["", "tokio", "vectored"][napi[0] % 3]
                rapi = ["", "tokio"][(napi[0] // 3) % 2]
                steps = [step("app", op_open, tag="s"),
                         step("app", "spawn", op="write", tag="s", len=ln, salt=salt, chunk=chunk,
                              then_finish=True, ms=20000, api=wapi),
                         step("app2", op_acc, tag="s", ms=5000),
                         step("app2", "read", tag="s", buf=buf, salt=salt, ms=20000, api=rapi)]
                if kind == "bi":
                    # the return direction carries no preamble
                    salt2 = salt + 1
                    back = min(ln, 70000) + 3
                    steps += [step("app2", "spawn", op="write", tag="s", len=back, salt=salt2,
                                   chunk=chunk if chunk <= back else 0, then_finish=True, ms=20000),
                              step("app", "read", tag="s", buf=buf, salt=salt2, ms=20000)]
                steps += [step("app", "await", tag="s", ms=20000)]
                if kind == "bi":
                    steps += [step("app2", "await", tag="s", ms=20000)]
                add(role, "wt", steps, {"family": "wt-wt", "kind": kind, "len": ln, "chunk": chunk, "buf": buf,
                                        "wapi": wapi or "own", "rapi": rapi or "own"})
    # concurrent streams
    for role in ("client", "server"):
        for nstreams in ([2, 8] if tier == "quick" else [2, 8, 40]):
            steps = []
            for k in range(nstreams):
                kind = "uni" if k % 2 == 0 else "bi"
                steps += [step("app", "open_" + kind, tag="s%d" % k),
                          step("app", "spawn", op="write", tag="s%d" % k, len=1000 + 997 * k,
                               salt_from_id=True, chunk=0 if k % 3 else 333, then_finish=True, ms=20000)]
            # accept in whatever order they surface; streams are told apart by their id
            for k in range(nstreams):
                kind = "uni" if k % 2 == 0 else "bi"
                steps += [step("app2", "accept_" + kind, tag="r%d" % k, ms=5000)]
            # accept order need not be open order: both ends derive the pattern salt from the stream id
            for k in range(nstreams):
                steps += [step("app2", "read", tag="r%d" % k, buf=4096, ms=20000, salt_from_id=True)]
            for k in range(nstreams):
                steps += [step("app", "await", tag="s%d" % k, ms=20000)]
            add(role, "wt", steps, {"family": "concurrent", "n": nstreams})

    # (i') the receiver grants a tiny flow-control window per stream: the endpoint's own writes (control
    # stream, request / response, stream preambles, payload) are accepted a byte or two at a time
    for role in ("client", "server"):
        for win in ([1, 3] if tier == "quick" else [1, 2, 3, 5, 17]):
            steps = []
            for k, kind in enumerate(("uni", "bi", "uni")):
                steps += [step("app", "open_" + kind, tag="o%d" % k, ms=8000),
                          step("app", "write", tag="o%d" % k, len=29 + k, salt=20 + k, chunk=7, then_finish=True, ms=8000)]
            steps.append(sleep(300))
            add(role, "raw", steps, {"family": "tiny-window", "window": win}, {"peer_stream_window": win})
    # (i-b) a window smaller than one vectored write: some slices are accepted, the next one is not
    for role in ("client", "server"):
        for api in ("vectored", "tokio"):
            steps = [step("app", "open_uni", tag="v", ms=8000),
                     step("app", "write", tag="v", len=32000, salt=31, chunk=0, api=api, then_finish=True, ms=10000),
                     step("app", "open_bi", tag="w", ms=8000),
                     step("app", "write", tag="w", len=41000, salt=32, chunk=23000, api=api, then_finish=True, ms=10000),
                     sleep(300)]
            add(role, "raw", steps, {"family": "window-vs-vectored", "window": 10000, "api": api}, {"peer_stream_window": 10000})
    # (i-c) the BiStream adapter: write and shut down through its AsyncWrite side, read the answer to the
    # end through its AsyncRead side while the object stays alive
    for role in ("client", "server"):
        for ln in (0, 50, 70000):
            steps = [step("app", "open_bi", tag="s"),
                     step("app", "spawn", op="bistream", tag="s", len=ln, salt=7, rsalt=8, ms=10000),
                     step("app2", "accept_bi", tag="s", ms=5000),
                     step("app2", "read", tag="s", buf=4096, salt=7, ms=8000),
                     step("app2", "write", tag="s", len=20 + ln // 3, salt=8, then_finish=True, ms=8000),
                     step("app", "await", tag="s", ms=12000)]
            add(role, "wt", steps, {"family": "bistream", "len": ln})
    # (ii) raw peer writes a WebTransport stream whose preamble is cut at every position
    payload = [0x54, 0x00, 0x41, 0x00, 0x40, 0x54, 9, 8, 7]     # looks like preambles itself
    variants = [("server", 0), ("client", 0), ("server", 64)] + ([("server", 4096)] if tier == "thorough" else [])
    for role, burn in variants:
        sid = 4 * burn
        if sid == 0:
            pre_uni = [varint(0x54) + varint(sid), varint(0x54, 4) + varint(sid, 2), varint(0x54, 8) + varint(sid, 8)]
            pre_bi = [varint(0x41) + varint(sid), varint(0x41, 4) + varint(sid, 2), varint(0x41, 8) + varint(sid, 4)]
        else:
            pre_uni = [varint(0x54) + varint(sid), varint(0x54, 2) + varint(sid, 8)]
            pre_bi = [varint(0x41) + varint(sid), varint(0x41, 4) + varint(sid, 4)]
        for kind, pres in (("uni", pre_uni), ("bi", pre_bi)):
            for pre in pres:
                wire = pre + payload
                cuts = [[c] for c in range(1, len(pre) + 2)]
                if len(pre) <= 4:
                    cuts += [[a, b] for a in range(1, len(pre) + 1) for b in range(a + 1, len(pre) + 2)]
                cuts.append([])
                if tier == "quick":
                    cuts = pick(rng, cuts, 4)
                # between the pieces the peer may do something else on the connection (a datagram, a
                # complete other stream): the half-received preamble must survive it
                plan = [(cut, inj) for cut in cuts for inj in (None, "dgram", "uni")]
                if tier == "quick":
                    plan = [(cut, [None, "dgram", "uni"][(k + len(pre)) % 3]) for k, cut in enumerate(cuts)]
                for cut, inj in plan:
                    steps = [step("peer", "open_" + kind, tag="p")]
                    prev = 0
                    nx = 0
                    for c in cut + [len(wire)]:
                        steps.append(step("peer", "write", tag="p", bytes=wire[prev:c]))
                        steps.append(sleep(25))
                        if c < len(wire) and inj == "dgram":
                            steps += [step("peer", "dgram", bytes=varint(sid // 4) + [0xD0, c]), sleep(15)]
                        if c < len(wire) and inj == "uni":
                            nx += 1
                            steps += [step("peer", "open_uni", tag="x%d" % nx),
                                      step("peer", "write", tag="x%d" % nx, bytes=varint(0x54) + varint(sid) + [0xE0, c, nx]),
                                      step("peer", "fin", tag="x%d" % nx), sleep(15)]
                        prev = c
                    steps += [step("peer", "fin", tag="p"),
                              step("app", "accept_" + kind, tag="a", ms=5000)]
                    for k in range(nx):
                        steps.append(step("app", "accept_uni", tag="ax%d" % k, ms=5000))
                    steps.append(step("app", "read", tag="a", buf=3, ms=5000))
                    for k in range(nx):
                        steps.append(step("app", "read", tag="ax%d" % k, buf=3, ms=5000))
                    if kind == "bi":
                        steps += [step("app", "write", tag="a", len=10, salt=5, then_finish=True)]
                    # and the other way round: the endpoint opens, the raw peer records
                    steps += [step("app", "open_" + kind, tag="o"),
                              step("app", "write", tag="o", len=33, salt=9, chunk=5, then_finish=True)]
                    steps.append(sleep(60))
                    add(role, "raw", steps, {"family": "raw-cut", "kind": kind, "cut": cut, "pre": pre, "sid": sid, "inject": inj or "none"},
                        {"burn_bidi": burn} if burn else None)
    return out


# ----------------------------------------------------------------------------- C02

def _can_bind_443():
    import socket
    try:
        s = socket.socket(socket.AF_INET, socket.SOCK_DGRAM)
        s.bind(("127.0.0.1", 443))
        s.close()
        return True
    except OSError:
        return False


def _hdr_classes(rng):
    shrink = lambda n: "".join("aeiost"[i % 6] for i in range(n))          # Huffman shrinks
    noshrink = lambda n: "".join("#$<>{}~^"[i % 8] for i in range(n))     # Huffman would grow
    vals = [""] + [f(n) for n in (1, 6, 7, 8, 126, 127, 128, 300) for f in (shrink, noshrink)]
    names_static = ["origin", "user-agent", "content-type", "accept-language", "cookie", "referer",
                    "accept-encoding", "x-frame-options"]
    names_lit = ["x", "x-a", "sec-webtransport-http3-draft", "abcdefg", "abcdefgh", "q" * 126, "q" * 127,
                 "q" * 128, "a.b_c~d", "0digit", "x-" + shrink(20), "1st-party", "-dash", "9"]
    return names_static, names_lit, vals


def c02(tier, seed):
    rng = random.Random(seed * 7919 + 2)
    names_static, names_lit, vals = _hdr_classes(rng)
    decisions = ["accept", "accept_headers", "forbidden", "not_found", "too_many"]
    hosts = [("127.0.0.1", {}), ("localhost", {}), ("a.b-c.example", {}), ("[::1]", {"bind": "dual"})]
    paths = ["", "/", "/a/b/c", "/chat/room1/", "/A.b-c_d~e"]
    queries = ["", "?", "?a=b&c=d", "?x"]
    urls = []
    for h, cfg in hosts:
        for p in paths:
            for q in queries:
                urls.append(("https://%s:{port}%s%s" % (h, p, q), cfg))
    # a domain host is resolved by the configured resolver: the connection goes where IT says (address and
    # port), while the request carries the URL's own authority
    for u_ in ("https://a.b-c.example:9/via/resolver?p=1", "https://localhost:65000/", "https://resolver.test:1"):
        urls.append((u_, {}))
    if _can_bind_443():
        for h in ("127.0.0.1", "localhost"):
            urls.append(("https://%s/" % h, {"port": 443}))
            urls.append(("https://%s:443/p?q=1" % h, {"port": 443}))
            urls.append(("https://%s" % h, {"port": 443}))
    header_sets = [[]]
    for nm in names_static + names_lit:
        header_sets.append([(nm, rng.choice(vals))])
    for v in vals:
        header_sets.append([(rng.choice(names_static + names_lit), v)])
    header_sets.append([("origin", "https://example.org"), ("user-agent", "wtv/1"), ("x-a", "1"), ("x-b", "")])
    # values that equal a static-table entry exactly
    header_sets.append([("content-type", "text/plain"), ("accept-encoding", "gzip, deflate, br"),
                        ("x-frame-options", "deny")])
    for _ in range(20):
        hs = {}
        for _ in range(rng.randrange(1, 7)):
            hs[rng.choice(names_static + names_lit)] = rng.choice(vals)
        header_sets.append(sorted(hs.items()))
    combos = []
    for i, (url, cfg) in enumerate(urls):
        combos.append((url, cfg, header_sets[i % len(header_sets)], decisions[i % 5], header_sets[(i * 7 + 3) % len(header_sets)]))
    for i, hs in enumerate(header_sets):
        url, cfg = urls[(i * 5 + 1) % len(urls)]
        combos.append((url, cfg, hs, decisions[(i + 2) % 5], header_sets[(i * 3 + 1) % len(header_sets)]))
    for d in decisions:
        for role in ("client", "server"):
            combos.append((urls[0][0], urls[0][1], header_sets[-1], d, header_sets[-2]))
    # field values outside ASCII (UTF-8 text must arrive as the same text, in both directions)
    utf = [[("x-utf8", "h\u00e9llo"), ("x-cjk", "\u4e16\u754c"), ("x-emoji", "\U0001F600 ok")],
           [("origin", "https://\u00fc.example"), ("x-mixed", "a\u00e9\u4e16\U0001F600z")]]
    front = [(urls[1][0], urls[1][1], utf[0], "accept", utf[1]), (urls[2][0], urls[2][1], utf[1], "accept_headers", utf[0]),
             (urls[3][0], urls[3][1], utf[0], "forbidden", utf[1]), (urls[4][0], urls[4][1], utf[1], "accept", [])]
    byurl = {u_: c for (u_, c) in urls}
    front += [(u_, byurl[u_], header_sets[3 + i], decisions[i % 2], []) for i, u_ in
              enumerate(("https://a.b-c.example:9/via/resolver?p=1", "https://localhost:65000/", "https://resolver.test:1"))]
    combos = front + combos
    if tier == "quick":
        combos = combos[:15] + pick(rng, combos[15:], 50)
    out = []
    for n, (url, cfg, hdrs, decision, extra) in enumerate(combos):
        role = "client" if n % 2 == 0 else "server"
        extra = [(k, v) for (k, v) in extra if not k.startswith(":")]
        s = {"scn": "C02-%04d" % n, "role": role, "peer": "wt", "url": url,
             "headers": [[k, v] for k, v in hdrs], "decision": decision,
             "extra": [[k, v] for k, v in extra], "cfg": dict(cfg),
             "meta": {"prop": "C02", "decision": decision,
                      "hdrs": [[list(k.encode()), list(v.encode())] for k, v in hdrs]},
             "steps": []}
        out.append(s)
    return out


# ----------------------------------------------------------------------------- C03

def c03(tier, seed):
    rng = random.Random(seed * 7919 + 3)
    out = []
    n = 0

    def add(role, peer, steps, meta, cfg=None):
        nonlocal n
        s = {"scn": "C03-%04d" % n, "role": role, "peer": peer, "meta": dict(meta, prop="C03"),
             "steps": steps}
        if cfg:
            s["cfg"] = cfg
        out.append(s)
        n += 1

    limits = [0, 1, 2, 5, 8, 9, 10, 11, 100, 1200, 65535]
    if tier == "quick":
        limits = [0, 1, 5, 9, 100, 65535]
    salt = 0
    # a session id whose quarter id needs a 2-byte (and, in thorough, a larger) varint
    # (sid 64: the session id needs 2 bytes but its quarter id 1; sid 256: both 2; sid 16384: 4 and 2)
    for burn in ([16, 64] if tier == "quick" else [16, 64, 4096]):
        live = 4 * burn
        for lim in ([2, 10, 100] if tier == "quick" else limits):
            steps = [step("app", "max_dgram")]
            for rel in (0, 1, -1):
                salt += 1
                steps.append(step("app", "send_dgram", rel=rel, salt=salt))
            salt += 1
            steps += [step("app", "send_dgram", len=3, salt=salt), step("app", "max_dgram")]
            steps += [step("peer", "dgram", bytes=varint(live // 4) + [5, 0x40, 0x40, 5]), sleep(20),
                      step("app", "recv_dgram", ms=800),
                      step("peer", "dgram", bytes=varint(0) + [6, 6]),               # session 0 is foreign here
                      step("peer", "dgram", bytes=varint(live // 4, 8) + [7]), sleep(20),
                      step("app", "recv_dgram", ms=800), step("app", "recv_dgram", ms=150), sleep(40)]
            add("server", "raw", steps, {"family": "big-sid", "limit": lim, "sid": live},
                {"peer_dgram_recv": lim, "burn_bidi": burn})
    for role in ("server", "client"):
        for lim in limits:
            steps = [step("app", "max_dgram")]
            for rel in (0, -1, 1, 8):
                salt += 1
                steps.append(step("app", "send_dgram", rel=rel, salt=salt))
                steps.append(step("app", "max_dgram"))
            for ln in (0, 1, 2, 50):
                salt += 1
                steps.append(step("app", "send_dgram", len=ln, salt=salt))
            steps.append(sleep(60))
            add(role, "raw", steps, {"family": "limits", "limit": lim}, {"peer_dgram_recv": lim})
    # peer -> application, live and foreign sessions interleaved
    for role in ("server", "client"):
        steps = []
        k = 0
        for q in (0, 1, 0, 64, 0, (1 << 60) - 1, 0):
            k += 1
            body = [k, 0x00, 0x41, 0x54, k]          # looks like framing itself
            steps.append(step("peer", "dgram", bytes=varint(q) + body))
            steps.append(sleep(15))
            if q == 0:
                steps.append(step("app", "recv_dgram", ms=800))
        steps.append(step("peer", "dgram", bytes=varint(0)))         # empty payload
        steps.append(step("app", "recv_dgram", ms=800))
        steps.append(step("peer", "dgram", bytes=varint(0, 8) + [1]))   # non-shortest quarter id
        steps.append(step("app", "recv_dgram", ms=800))
        steps.append(step("app", "recv_dgram", ms=150))                 # nothing left: foreign ones are dropped
        # quarter ids that are no session's (not client-initiated bidirectional when multiplied back, huge,
        # non-shortest), then proof that the live session is undisturbed
        for q in (1, 2, 3, 5, 63, 16383, (1 << 60) - 1):
            steps.append(step("peer", "dgram", bytes=varint(q) + [0xF0, q % 251]))
        steps.append(step("peer", "dgram", bytes=varint(1, 8) + [0xF1]))
        steps += [sleep(40), step("peer", "dgram", bytes=varint(0) + [0xAA, 0xBB]), step("app", "recv_dgram", ms=800),
                  step("peer", "open_uni", tag="probe"), step("peer", "write", tag="probe", bytes=wt_uni_preamble(0) + [0x70]),
                  step("app", "accept_uni", tag="probe", ms=2500)]
        add(role, "raw", steps, {"family": "peer-to-app"})
    # two wtransport endpoints, both directions interleaved
    for role in ("client", "server"):
        lens = [0, 1, 2, 100, 1000, 1200]
        steps = []
        for i, ln in enumerate(lens):
            salt += 1
            steps.append(step("app", "send_dgram", len=ln, salt=salt))
            salt += 1
            steps.append(step("app2", "send_dgram", len=ln + 1, salt=salt))
            if i % 2:
                steps.append(step("app2", "recv_dgram", ms=500))
                steps.append(step("app", "recv_dgram", ms=500))
        for _ in lens:
            steps.append(step("app2", "recv_dgram", ms=300))
            steps.append(step("app", "recv_dgram", ms=300))
        steps += [step("app", "max_dgram"), step("app2", "max_dgram"),
                  step("app", "send_dgram", rel=0, salt=salt + 1), step("app", "send_dgram", rel=1, salt=salt + 2),
                  step("app2", "recv_dgram", ms=500)]
        add(role, "wt", steps, {"family": "wt-wt"})
    return out


# ----------------------------------------------------------------------------- C06

C06_CODES = [0, 63, 64, 16383, 16384, (1 << 30) - 1, 1 << 30, (1 << 62) - 1,
             1 << 32, (1 << 32) + 12345, (1 << 40) + 7, (1 << 62) - 2, (1 << 32) - 1, 1]
C06_BIG = [1 << 32, (1 << 32) + 12345, (1 << 40) + 7, (1 << 62) - 2]


def c06(tier, seed, scripts):
    """scripts: operation histories printed by TLC (StreamLifeGen): lists of
    {side, op, code, n}."""
    rng = random.Random(seed * 7919 + 6)
    out = []
    layouts = [("client", "uni", "fwd"), ("server", "uni", "fwd"), ("client", "bi", "fwd"),
               ("server", "bi", "fwd"), ("client", "bi", "ret"), ("server", "bi", "ret")]
    for n, ops in enumerate(scripts):
        role, kind, direction = layouts[n % len(layouts)]
        if direction == "fwd":
            sside, rside = "app", "app2"
        else:
            sside, rside = "app2", "app"
        salt = n % 190
        steps = [step("app", "open_" + kind, tag="s"),
                 step("app2", "accept_" + kind, tag="s", ms=5000),
                 sleep(20)]
        k = 0
        # Barriers.  The model assumes every step has settled before the next one.  How long to wait
        # for that is derived from the script itself (what was written / finished / reset / stopped so
        # far); it only sets waiting budgets - the verdict is the monitor's, on what was observed.
        sst, rst, sent, rcvd = "open", "open", 0, 0
        for o in ops:
            who = sside if o["side"] == "S" else rside
            # every fourth history uses code 0 throughout, every fourth only codes above 2^32
            if n % 4 == 1:
                code = 0
            elif n % 4 == 3:
                code = C06_BIG[(n // 4 + k) % len(C06_BIG)]
            else:
                code = C06_CODES[(n + k) % len(C06_CODES)]
            k += 1
            if o["op"] == "write":
                steps.append(step(who, "write", tag="s", len=o["n"], salt=salt, ms=3000))
                if sst == "open" and rst == "open":
                    sent += o["n"]
            elif o["op"] == "finish":
                steps.append(step(who, "finish", tag="s", ms=3000))
                if sst == "open" and rst == "open":
                    sst = "fin"
            elif o["op"] == "reset":
                steps.append(step(who, "reset", tag="s", code=v62(code)))
                if sst == "open":
                    sst = "reset"
            elif o["op"] == "stopped":
                # resolves only if the stream was finished or stopped: then allow for slow delivery
                steps.append(step(who, "stopped", tag="s", ms=3000 if (sst != "open" or rst != "open") else 300))
            elif o["op"] == "read":
                if sst == "open":
                    # nothing ends the stream: wait (long) for the written bytes, then briefly for silence
                    steps.append(step(who, "read", tag="s", buf=2, salt=salt, ms=3000, want=sent - rcvd, grace_ms=120))
                else:
                    steps.append(step(who, "read", tag="s", buf=2, salt=salt, ms=3000))
                rcvd = sent
            elif o["op"] == "stop":
                steps.append(step(who, "stop", tag="s", code=v62(code)))
                if rst == "open":
                    rst = "stopped"
                steps.append(step(sside, "settle_stopped", tag="s", ms=3000))
            steps.append(sleep(40))
        out.append({"scn": "C06-%05d" % n, "role": role, "peer": "wt",
                    "meta": {"prop": "C06", "sside": sside, "rside": rside, "stag": "s", "rtag": "s",
                             "nops": len(ops), "kind": kind, "dir": direction,
                             "ops": [o["op"] for o in ops]},
                    "steps": steps})
    # an abandoned finish: the future is polled once and dropped, finish is called again and - once that
    # has reported success, i.e. the peer has everything - a reset can no longer take anything back
    base = len(scripts)
    k = 0
    for (role, kind, direction) in layouts[:4]:
        for ln in (1, 5000, 70000):
            code = C06_CODES[(k * 5 + 3) % len(C06_CODES)]
            steps = [step("app", "open_" + kind, tag="s"), step("app2", "accept_" + kind, tag="s", ms=5000), sleep(20),
                     step("app", "write", tag="s", len=ln, salt=11, ms=5000),
                     step("app", "finish", tag="s", poll_once=True),
                     step("app", "finish", tag="s", ms=5000),
                     step("app", "reset", tag="s", code=v62(code)), sleep(40),
                     step("app2", "read", tag="s", buf=4096, salt=11, ms=3000)]
            out.append({"scn": "C06-%05d" % (base + k), "role": role, "peer": "wt",
                        "meta": {"prop": "C06", "sside": "app", "rside": "app2", "stag": "s", "rtag": "s", "nops": 4,
                                 "kind": kind, "dir": "fwd", "ops": ["write", "finish", "reset", "read"], "family": "abandoned-finish"},
                        "steps": steps})
            k += 1
    # the connection goes away under a stream that is still open: finish / write / stopped cannot succeed
    for (role, kind, direction) in layouts[:4]:
        for later in ("finish", "write", "stopped"):
            steps = [step("app", "open_" + kind, tag="s"), step("app2", "accept_" + kind, tag="s", ms=5000), sleep(20),
                     step("app", "write", tag="s", len=300, salt=12, ms=5000), sleep(30),
                     step("app2", "close", code=v62(C06_BIG[k % len(C06_BIG)]), reason=[103, 111, 110, 101]), sleep(120)]
            if later == "write":
                steps.append(step("app", "write", tag="s", len=10, salt=12, ms=3000))
            else:
                steps.append(step("app", later, tag="s", ms=3000))
            out.append({"scn": "C06-%05d" % (base + k), "role": role, "peer": "wt",
                        "meta": {"prop": "C06", "sside": "app", "rside": "app2", "stag": "s", "rtag": "s", "nops": 3,
                                 "kind": kind, "dir": "fwd", "ops": ["write", "lose", later], "family": "connection-lost"},
                        "steps": steps})
            k += 1
    # the link between the endpoints is cut (a relay that drops every packet): what is written from
    # then on cannot be acknowledged, so no finish - first or repeated after an abandoned one - may
    # report success before the link is back; afterwards a reset still takes effect / a finish succeeds
    for (role, kind, direction) in layouts[:4]:
        for variant in ("reset", "finish"):
            for abandon in (True, False):
                code = C06_CODES[(k * 5 + 1) % len(C06_CODES)]
                steps = [step("app", "open_" + kind, tag="s"), step("app2", "accept_" + kind, tag="s", ms=5000), sleep(20),
                         step("app", "write", tag="s", len=5, salt=15, ms=5000), sleep(60),
                         step("app", "link", tag="s", cut=True),
                         step("app", "write", tag="s", len=4, salt=15, ms=3000)]
                if abandon:
                    steps.append(step("app", "finish", tag="s", poll_once=True))
                steps.append(step("app", "finish", tag="s", ms=400))
                if variant == "reset":
                    steps += [step("app", "reset", tag="s", code=v62(code)), step("app", "link", tag="s", cut=False), sleep(1500)]
                else:
                    steps += [step("app", "link", tag="s", cut=False), step("app", "finish", tag="s", ms=8000)]
                steps.append(step("app2", "read", tag="s", buf=4096, salt=15, ms=4000))
                ops = ["write", "cut", "write", "finish"] + (["reset", "uncut"] if variant == "reset" else ["uncut", "finish"]) + ["read"]
                out.append({"scn": "C06-%05d" % (base + k), "role": role, "peer": "wt", "cfg": {"link": True},
                            "meta": {"prop": "C06", "sside": "app", "rside": "app2", "stag": "s", "rtag": "s", "nops": len(ops),
                                     "kind": kind, "dir": "fwd", "ops": ops, "family": "link-cut"},
                            "steps": steps})
                k += 1
    # the BiStream adapter as the sending side: shutdown() is its finish
    for role in ("client", "server"):
        for ln in (1, 50, 70000):
            steps = [step("app", "open_bi", tag="s"),
                     step("app", "spawn", op="bistream", tag="s", len=ln, salt=13, rsalt=14, ms=8000),
                     step("app2", "accept_bi", tag="s", ms=5000),
                     step("app2", "read", tag="s", buf=4096, salt=13, ms=3000),
                     step("app2", "write", tag="s", len=9, salt=14, then_finish=True, ms=5000),
                     step("app", "await", tag="s", ms=10000)]
            out.append({"scn": "C06-%05d" % (base + k), "role": role, "peer": "wt",
                        "meta": {"prop": "C06", "sside": "app", "rside": "app2", "stag": "s", "rtag": "s", "nops": 3,
                                 "kind": "bi", "dir": "fwd", "ops": ["write", "finish", "read"], "family": "bistream"},
                        "steps": steps})
            k += 1
    return out


# ------------------------------------------------------------------- C12/C13/C17/C18 (driver)

def qpack_section(lines):
    return [0, 0] + [b for l in lines for b in l]


def q_idx(i):
    return prefix_int(0xC0, 6, i)


def prefix_int(high, n, value):
    mask = (1 << n) - 1
    if value < mask:
        return [high | value]
    out = [high | mask]
    rem = value - mask
    while rem >= 128:
        out.append((rem & 0x7F) | 0x80)
        rem >>= 7
    out.append(rem)
    return out


def q_lit_nameref(idx, value):
    return prefix_int(0x50, 4, idx) + prefix_int(0x00, 7, len(value)) + list(value)


def q_lit_lit(name, value):
    return prefix_int(0x20, 3, len(name)) + list(name) + prefix_int(0x00, 7, len(value)) + list(value)


def request_headers(method=b"CONNECT", scheme=b"https", protocol=b"webtransport",
                    authority=b"localhost", path=b"/", extra=()):
    lines = []
    if method is not None:
        lines.append(q_lit_nameref(15, method))
    if scheme is not None:
        lines.append(q_lit_nameref(22, scheme))
    if authority is not None:
        lines.append(q_lit_nameref(0, authority))
    if path is not None:
        lines.append(q_lit_nameref(1, path))
    if protocol is not None:
        lines.append(q_lit_lit(b":protocol", protocol))
    for k, v in extra:
        lines.append(q_lit_lit(k, v))
    return qpack_section(lines)


GREASE_T = [0x21, 0x21 + 0x1F * 3, 0x21 + 0x1F * 1000, 0x21 + 0x1F * 100000000, 0x21 + 0x1F * ((1 << 50) + 1)]
UNKNOWN_FRAME_T = [0x0F, 0x3F, 0x4242, 0x424242, (1 << 40) + 3]
UNKNOWN_STREAM_T = [0x3F, 0x4243, 0x424243, (1 << 40) + 5]


def _uni_streams(live):
    """(name, bytes, end, extra app/peer steps kind)"""
    S = []
    S.append(("ctrl_dup", [0x00] + frame(4, SETTINGS_PAYLOAD), "open"))
    S.append(("qenc", [0x02, 0x20], "open"))
    S.append(("qdec", [0x03], "open"))
    S.append(("qenc_fin", [0x02], "fin"))
    S.append(("qdec_reset", [0x03, 0x80], "reset"))
    for i, t in enumerate(GREASE_T[:3]):
        S.append(("grease_uni%d" % i, varint(t) + frame(0, b"xx") + [0xFF] * 3, ["open", "fin", "reset"][i % 3]))
    for i, t in enumerate(UNKNOWN_STREAM_T):
        S.append(("unknown_uni%d" % i, varint(t) + frame(4, SETTINGS_PAYLOAD) + [0x41, 0x01], ["fin", "open", "reset", "fin"][i]))
    S.append(("wt_live", wt_uni_preamble(live) + [1, 2, 3], "fin"))
    S.append(("wt_foreign4", wt_uni_preamble(live + 4) + [1, 2, 3], "open"))
    S.append(("wt_foreign_big", wt_uni_preamble((1 << 40) * 4) + [9], "open"))
    if live:
        S.append(("wt_foreign0", wt_uni_preamble(0) + [1], "open"))
    for sid in (1, 2, 3):
        S.append(("wt_badsid%d" % sid, wt_uni_preamble(live + sid) + [0], "open"))
    S.append(("trunc_type_fin", [0x40], "fin"))
    S.append(("trunc_type_reset", [0x80, 0x00], "reset"))
    S.append(("trunc_wt_sid_fin", [0x40, 0x54, 0x40], "fin"))
    S.append(("empty_fin", [], "fin"))
    S.append(("empty_reset", [], "reset"))
    return S


def _bi_streams(live, server):
    S = []
    S.append(("wt_live", wt_bi_preamble(live) + [7, 7], "fin"))
    S.append(("wt_foreign4", wt_bi_preamble(live + 4) + [7], "open"))
    for sid in (1, 2, 3):
        S.append(("wt_badsid%d" % sid, wt_bi_preamble(live + sid), "open"))
    S.append(("grease_then_fin", frame(GREASE_T[1], b"g"), "fin"))
    S.append(("unknown_then_fin", frame(UNKNOWN_FRAME_T[2], frame(4, [8, 1])), "fin"))
    S.append(("empty_fin", [], "fin"))
    S.append(("trunc_frame_fin", [0x01, 0x05, 0x00], "fin"))
    S.append(("trunc_type_fin", [0x40], "fin"))
    S.append(("oversize", varint(1) + varint(4097) + [0] * 10, "open"))
    if server:
        S.append(("data_first", frame(0, b"dd"), "open"))
        S.append(("settings_first", frame(4, [8, 1]), "open"))
        S.append(("grease_then_data", frame(GREASE_T[0], b"") + frame(0, b"x"), "open"))
        S.append(("unknown_then_settings", frame(UNKNOWN_FRAME_T[0], b"") + frame(4, []), "open"))
        S.append(("get_request", frame(1, request_headers(method=b"GET", protocol=None)), "open"))
        S.append(("no_protocol", frame(1, request_headers(protocol=None)), "open"))
        S.append(("wrong_protocol", frame(1, request_headers(protocol=b"websocket")), "open"))
        S.append(("http_scheme", frame(1, request_headers(scheme=b"http")), "open"))
        S.append(("no_authority", frame(1, request_headers(authority=None)), "open"))
        S.append(("no_path", frame(1, request_headers(path=None)), "open"))
        S.append(("no_method", frame(1, request_headers(method=None)), "open"))
        S.append(("bad_qpack_dyn", frame(1, [0, 0, 0x80]), "open"))
        S.append(("bad_qpack_idx", frame(1, [0, 0, 0xFF, 0x40]), "open"))
        S.append(("bad_qpack_trunc", frame(1, [0, 0, 0x51, 0x05, 0x61]), "open"))
        S.append(("grease_unknown_then_get", frame(GREASE_T[2], b"zz") + frame(UNKNOWN_FRAME_T[1], [0, 0]) +
                  frame(1, request_headers(method=b"GET", protocol=None)), "open"))
    return S


def _ctrl_conts():
    S = []
    S.append(("data", frame(0, b"x"), "open"))
    S.append(("headers", frame(1, [0, 0]), "open"))
    S.append(("settings2", frame(4, []), "open"))
    S.append(("wtframe", wt_bi_preamble(0), "open"))
    for i, t in enumerate(GREASE_T):
        S.append(("grease%d" % i, frame(t, b"g" * i), "open"))
    for i, t in enumerate(UNKNOWN_FRAME_T):
        S.append(("unknown%d" % i, frame(t, [[], [0, 0], frame(0, b"x"), wt_bi_preamble(1), frame(4, [8, 1])][i]), "open"))
    S.append(("unknown_then_data", frame(0x0F, [0x04, 0x00]) + frame(0, b""), "open"))
    S.append(("grease_then_settings", frame(0x21, b"") + frame(4, [8, 1]), "open"))
    S.append(("oversize", varint(0x21) + varint(4097) + [0] * 4, "open"))
    S.append(("oversize_data", varint(0) + varint(1 << 20), "open"))
    S.append(("fin", [], "fin"))
    S.append(("reset", [], "reset"))
    S.append(("trunc_fin", [0x21, 0x05, 0x00], "fin"))
    S.append(("grease_fin", frame(0x21, b"abc"), "fin"))
    return S


def _ctrl_firsts():
    """Whole control streams, from the type byte on."""
    st = frame(4, SETTINGS_PAYLOAD)
    extra = SETTINGS_PAYLOAD + varint(0x21 + 0x1F * 9) + varint(7) + varint(0x4D2) + varint(0x33) + varint((1 << 40) + 9) + varint(0)
    S = []
    S.append(("settings", [0x00] + st, "open"))
    S.append(("settings_extra_ids", [0x00] + frame(4, extra), "open"))
    S.append(("settings_grease", [0x00] + st + frame(0x21, b"g") + frame(GREASE_T[3], b""), "open"))
    for i, t in enumerate(GREASE_T[:4]):
        S.append(("grease%d_settings" % i, [0x00] + frame(t, b"g" * i) + st, "open"))
    S.append(("grease_only", [0x00] + frame(0x21, b""), "open"))
    S.append(("unknown_settings", [0x00] + frame(0x0F, b"zz") + st, "open"))
    S.append(("data_first", [0x00] + frame(0, b"d") + st, "open"))
    S.append(("headers_first", [0x00] + frame(1, [0, 0]) + st, "open"))
    S.append(("wt_first", [0x00] + wt_bi_preamble(0) + st, "open"))
    S.append(("settings_twice", [0x00] + st + st, "open"))
    S.append(("settings_grease_data", [0x00] + st + frame(0x21, b"") + frame(0, b"x"), "open"))
    S.append(("settings_reserved", [0x00] + frame(4, varint(0x02) + varint(0) + SETTINGS_PAYLOAD), "open"))
    S.append(("settings_dup", [0x00] + frame(4, SETTINGS_PAYLOAD + varint(0x08) + varint(1)), "open"))
    S.append(("settings_trunc_pair", [0x00] + frame(4, SETTINGS_PAYLOAD + [0x40]), "open"))
    S.append(("settings_oversize", [0x00] + varint(4) + varint(4097) + [0] * 8, "open"))
    S.append(("type_only_fin", [0x00], "fin"))
    S.append(("type_only_reset", [0x00], "reset"))
    S.append(("type_only_open", [0x00], "open"))
    S.append(("partial_settings_fin", [0x00] + st[:5], "fin"))
    S.append(("partial_settings_open", [0x00] + st[:5], "open"))
    S.append(("settings_fin", [0x00] + st, "fin"))
    S.append(("settings_reset", [0x00] + st, "reset"))
    return S


def _req_conts():
    S = []
    S.append(("settings", frame(4, []), "open"))
    S.append(("wtframe", wt_bi_preamble(0), "open"))
    S.append(("grease", frame(GREASE_T[1], b"gg"), "open"))
    S.append(("unknown", frame(UNKNOWN_FRAME_T[3], frame(0, close_capsule_frame(1, b"x"))), "open"))
    S.append(("trailers", frame(1, [0, 0]), "open"))
    S.append(("unknown_capsule", frame(0, capsule(0x1234, b"abc")), "open"))
    S.append(("drain_capsule", frame(0, capsule(0x78AE, b"")), "open"))
    S.append(("trunc_fin", [0x00, 0x08, 0x68, 0x43], "fin"))
    S.append(("trunc_type_fin", [0x40], "fin"))
    S.append(("grease_trunc_fin", frame(0x21, b"ok") + [0x21, 0x03, 0x00], "fin"))
    S.append(("oversize", varint(0) + varint(4097) + [0] * 4, "open"))
    S.append(("oversize_grease", varint(0x21) + varint(1 << 20), "open"))
    S.append(("wt_badsid", wt_bi_preamble(2), "open"))
    S.append(("reset", [], "reset"))
    S.append(("bad_close_capsule", close_capsule_frame(1, b"\xff\xfe"), "open"))
    return S


def c12(tier, seed, want=("C12", "C13", "C17", "C18")):
    out = _c12(tier, seed, 0)
    big = _c12(tier, seed, 64)
    # with a burnt-in session id 256: the WebTransport-stream events of the server role
    keep = [s for s in big if s["role"] == "server" and any(nm.startswith("wt_") for nm in s["meta"]["names"])]
    for k, s in enumerate(keep):
        s["scn"] = "C12-9%03d" % k
        s["cfg"] = dict(s.get("cfg", {}), burn_bidi=64)
        s["meta"]["sid"] = 256
    return out + keep


def _c12(tier, seed, burn):
    rng = random.Random(seed * 7919 + 12)
    out = []
    n = 0
    live = 4 * burn

    def build(role, streams, meta):
        """streams: list of (dir, name, bytes, end) in order."""
        nonlocal n
        steps = []
        for k, (d, name, bs, end) in enumerate(streams):
            tag = d if d in ("ctrl", "req") else "t%d" % k
            if d in ("open_uni", "open_bi"):
                steps.append(step("peer", d, tag=tag))
            if bs:
                steps.append(step("peer", "write", tag=tag, bytes=bs))
            steps.append(sleep(40))
            if end in ("fin", "reset"):
                steps.append(step("peer", end, tag=tag, code=v62(0x10C)) if end == "reset" else step("peer", "fin", tag=tag))
                steps.append(sleep(40))
            if name.startswith("wt_"):
                acc = "accept_uni" if d == "open_uni" else "accept_bi"
                ms = 2000 if name == "wt_live" else 350
                steps.append(step("app", acc, tag=tag if name == "wt_live" else "x%d" % k, ms=ms))
                if name != "wt_live":
                    steps.append(step("peer", "stopped", tag=tag, ms=1500))
            if name in ("get_request", "no_protocol", "wrong_protocol", "http_scheme", "no_authority",
                        "no_path", "no_method", "grease_unknown_then_get"):
                steps.append(step("peer", "stopped", tag=tag, ms=1500))
        steps += [step("peer", "open_uni", tag="probe"),
                  step("peer", "write", tag="probe", bytes=wt_uni_preamble(live) + [0x70]),
                  step("app", "accept_uni", tag="probe", ms=2500)]
        out.append({"scn": "C12-%04d" % n, "role": role, "peer": "raw", "settle_ms": 120,
                    "meta": dict(meta, prop="C12", names=[s[1] for s in streams]), "steps": steps})
        n += 1

    for role in ("server", "client"):
        unis = [("open_uni",) + s for s in _uni_streams(live)]
        bis = [("open_bi",) + s for s in _bi_streams(live, role == "server")]
        ctrls = [("ctrl",) + s for s in _ctrl_conts()]
        reqs = [("req",) + s for s in _req_conts()]
        singles = unis + bis + ctrls + reqs
        for s in singles:
            build(role, [s], {"depth": 1})
        # pairs: duplicates of critical streams, noise before an offender, noise before a healthy stream
        by = {x[1]: x for x in unis}
        byb = {x[1]: x for x in bis}
        byc = {x[1]: x for x in ctrls}
        pairs = [[by["qenc"], by["qenc"]], [by["qdec"], by["qdec"]], [by["qenc"], by["qdec"]],
                 [by["qenc"], by["qenc_fin"]], [by["qdec"], by["qenc"]],
                 [by["unknown_uni0"], by["wt_live"]], [by["grease_uni1"], by["ctrl_dup"]],
                 [by["unknown_uni1"], by["unknown_uni2"]], [by["wt_foreign4"], by["wt_live"]],
                 [by["trunc_type_fin"], by["wt_live"]], [by["empty_reset"], by["qenc"]],
                 [byc["grease2"], by["wt_live"]], [byc["unknown3"], byb["wt_live"]],
                 [byb["wt_foreign4"], byb["wt_live"]], [byb["empty_fin"], byb["wt_live"]],
                 [byc["unknown2"], byc["data"]], [byc["grease0"], byc["settings2"]]]
        if role == "server":
            pairs += [[byb["get_request"], byb["wt_live"]], [byb["no_protocol"], byb["data_first"]],
                      [by["unknown_uni3"], byb["get_request"]]]
        for p in pairs:
            build(role, p, {"depth": 2})
        # reserved / unknown stream types left OPEN in numbers beyond any internal queue: they must not
        # hold anything that later streams need
        g_open = ("open_uni", "grease_open", varint(GREASE_T[1]) + [1, 2, 3], "open")
        u_open = ("open_uni", "unknown_open", varint(UNKNOWN_STREAM_T[1]) + [4, 5], "open")
        for seq in ([g_open] * 5 + [by["wt_live"]], [u_open] * 5 + [by["wt_live"]],
                    [g_open, u_open] * 3 + [by["wt_live"], byb["wt_live"]]):
            build(role, list(seq), {"depth": len(seq)})
        # the peer's control stream from its first byte (no automatic SETTINGS): what may and may not
        # come first.  Every write is one piece (segmentation is C05's subject).
        if burn == 0:
            for name, bs, end in _ctrl_firsts():
                steps = [step("peer", "open_uni", tag="mctrl"),
                         step("peer", "write", tag="mctrl", bytes=bs), sleep(60)]
                if end in ("fin", "reset"):
                    steps.append(step("peer", end, tag="mctrl", code=v62(0x10C)) if end == "reset"
                                 else step("peer", "fin", tag="mctrl"))
                steps.append(sleep(120))
                if role == "server":
                    steps += [step("peer", "open_bi", tag="hs"),
                              step("peer", "write", tag="hs", bytes=frame(1, request_headers()))]
                else:
                    steps += [step("peer", "wait_handle", tag="in0", ms=800),
                              step("peer", "write", tag="in0", bytes=frame(1, qpack_section([q_idx(25)])))]
                steps += [step("app", "adopt", ms=800),
                          step("peer", "open_uni", tag="probe"),
                          step("peer", "write", tag="probe", bytes=wt_uni_preamble(0) + [0x70]),
                          step("app", "accept_uni", tag="probe", ms=2500)]
                out.append({"scn": "C12-%04d" % n, "role": role, "peer": "raw", "manual": True, "settle_ms": 120,
                            "meta": {"prop": "C12", "names": ["mctrl_" + name], "depth": 1}, "steps": steps})
                n += 1
        if tier == "thorough":
            pool = [x for x in singles if x[1] not in ("ctrl_dup",)]
            for _ in range(150):
                k = rng.choice([2, 3])
                seq = [rng.choice(pool) for _ in range(k)]
                # a continuation tag may appear only once per scenario
                names = [s[0] for s in seq if s[0] in ("ctrl", "req")]
                if len(names) != len(set(names)):
                    continue
                build(role, seq, {"depth": k})
    return out


# ----------------------------------------------------------------------------- C16

def c16(tier, seed):
    rng = random.Random(seed * 7919 + 16)
    names_static, names_lit, vals = _hdr_classes(rng)
    out = []
    n = 0
    emit_steps = [step("app", "open_uni", tag="u"), step("app", "write", tag="u", len=12, salt=1, then_finish=True),
                  step("app", "open_bi", tag="b"), step("app", "write", tag="b", len=5, salt=2),
                  step("app", "send_dgram", len=0, salt=3), step("app", "send_dgram", len=9, salt=4),
                  step("app", "open_uni", tag="u2"), step("app", "reset", tag="u2", code=v62(77)),
                  sleep(60)]
    header_sets = [[]]
    for nm in names_static + names_lit:
        header_sets.append([(nm, rng.choice(vals))])
    for _ in range(12):
        hs = {}
        for _ in range(rng.randrange(1, 6)):
            hs[rng.choice(names_static + names_lit)] = rng.choice(vals)
        header_sets.append(sorted(hs.items()))
    urls = ["https://127.0.0.1:{port}/", "https://localhost:{port}/a/b?c=d", "https://a.b-c.example:{port}",
            "https://localhost:{port}/chat/room1/?x"]
    if tier == "quick":
        header_sets = header_sets[:4] + pick(rng, header_sets[4:], 10)
    # (a) the endpoint is the client: request + SETTINGS + streams + datagrams recorded by a raw server
    for i, hs in enumerate(header_sets):
        out.append({"scn": "C16-%04d" % n, "role": "client", "peer": "raw", "url": urls[i % len(urls)],
                    "headers": [[k, v] for k, v in hs], "meta": {"prop": "C16", "family": "client"},
                    "steps": list(emit_steps)})
        n += 1
    # (b) the endpoint is the server: every decision, with extra response fields
    decisions = ["accept", "accept_headers", "forbidden", "not_found", "too_many"]
    for i, hs in enumerate(header_sets):
        d = decisions[i % 5]
        extra = [(k, v) for (k, v) in hs if not k.startswith(":")]
        out.append({"scn": "C16-%04d" % n, "role": "server", "peer": "raw", "decision": d,
                    "extra": [[k, v] for k, v in extra], "meta": {"prop": "C16", "family": "server", "decision": d},
                    "steps": list(emit_steps) if d.startswith("accept") else [sleep(80)]})
        n += 1
    # (b') the same with session id 256 (two-byte session id / quarter id on everything emitted)
    for i, hs in enumerate(header_sets[:3]):
        out.append({"scn": "C16-%04d" % n, "role": "server", "peer": "raw", "decision": "accept",
                    "cfg": {"burn_bidi": 64}, "meta": {"prop": "C16", "family": "server-sid256", "decision": "accept"},
                    "steps": list(emit_steps)})
        n += 1
    # (b'') session ids whose varint is longer than their quarter id's (64: 2 bytes / 1 byte)
    for burn, fam in ((16, "server-sid64"), (63, "server-sid252")):
        out.append({"scn": "C16-%04d" % n, "role": "server", "peer": "raw", "decision": "accept",
                    "cfg": {"burn_bidi": burn}, "meta": {"prop": "C16", "family": fam, "decision": "accept"},
                    "steps": list(emit_steps) + [step("app", "send_dgram", len=1, salt=5), step("app", "send_dgram", len=40, salt=6),
                                                sleep(60)]})
        n += 1
    # (b3) the peer grants 1-3 bytes of flow control per stream: SETTINGS, HEADERS and the stream
    # preambles leave in several short writes and must still be whole
    for role in ("client", "server"):
        for win in (1, 3):
            scn = {"scn": "C16-%04d" % n, "role": role, "peer": "raw", "cfg": {"peer_stream_window": win},
                   "meta": {"prop": "C16", "family": "tiny-window-" + role, "decision": "accept"},
                   "steps": list(emit_steps) + [sleep(200)]}
            if role == "client":
                scn["url"] = urls[1]
                scn["headers"] = [["origin", "https://example.org"], ["x-a", "1"]]
            else:
                scn["decision"] = "accept_headers"
                scn["extra"] = [["x-extra", "1"]]
            out.append(scn)
            n += 1
    # (c) error paths that make the endpoint speak (codes must be registered values)
    for s in c12(tier, seed):
        names = s["meta"]["names"]
        if len(names) == 1 and names[0] in ("ctrl_dup", "qenc_fin", "wt_badsid1", "data", "settings2", "oversize",
                                             "fin", "trunc_fin", "data_first", "get_request", "no_path",
                                             "bad_qpack_dyn", "wt_foreign4", "settings", "wtframe"):
            s = dict(s)
            s["scn"] = "C16-%04d" % n
            s["meta"] = dict(s["meta"], prop="C16", family="errors")
            out.append(s)
            n += 1
    return out


# ----------------------------------------------------------------------------- C05

def _pieces(tag, data, cuts, inject):
    """write `data` on `tag` cut at positions `cuts`, with `inject` steps between the pieces"""
    steps = []
    prev = 0
    for i, c in enumerate(list(cuts) + [len(data)]):
        if c > prev:
            steps.append(step("peer", "write", tag=tag, bytes=data[prev:c]))
        if i < len(cuts):
            steps.append(sleep(25))
            steps += inject(i)
            steps.append(sleep(25))
        prev = c
    return steps


def c05(tier, seed):
    rng = random.Random(seed * 7919 + 5)
    out = []
    n = 0
    live = 0
    settings = frame(4, SETTINGS_PAYLOAD)
    grease_c = frame(0x21, b"gg")
    grease_r = frame(0x21 + 0x1F * 2, b"")
    request = frame(1, request_headers(authority=b"localhost:4433", path=b"/seg?x=1",
                                       extra=[(b"origin", b"https://example.org")]))
    response = frame(1, qpack_section([q_idx(25), q_lit_lit(b"x-extra", b"1")]))
    grease_s = frame(0x21 + 0x1F * 5, b"session-grease")
    cap = close_capsule_frame(4242, b"segmented bye")

    def injector(kind, target_on):
        state = {"n": 0}

        def f(i):
            state["n"] += 1
            k = state["n"]
            if kind == "none":
                return []
            if kind == "dgram":
                return [step("peer", "dgram", bytes=varint(live // 4) + [k, 2, 3])]
            if kind == "wt_uni":
                return [step("peer", "open_uni", tag="iu%d" % k),
                        step("peer", "write", tag="iu%d" % k, bytes=wt_uni_preamble(live) + [k])]
            if kind == "wt_bi":
                return [step("peer", "open_bi", tag="ib%d" % k),
                        step("peer", "write", tag="ib%d" % k, bytes=wt_bi_preamble(live) + [k])]
            if kind == "qpack":
                if k == 1:
                    return [step("peer", "open_uni", tag="qe"), step("peer", "write", tag="qe", bytes=[0x02])]
                return [step("peer", "write", tag="qe", bytes=[0x20 + k])]
            if kind == "other_crit":
                if target_on == "ctrl":
                    if k == 1:
                        return [step("peer", "open_uni", tag="qd"), step("peer", "write", tag="qd", bytes=[0x03])]
                    return [step("peer", "write", tag="qd", bytes=[0x80 + k])]
                return [step("peer", "write", tag="ctrl", bytes=frame(0x21 + 0x1F * (10 + k), b"i"))]
            return []
        return f

    injects = ["none", "dgram", "wt_uni", "wt_bi", "qpack", "other_crit"]
    for role in ("server", "client"):
        req_tag = "req" if role == "server" else "in0"
        hs = (grease_r + request) if role == "server" else (grease_r + response)
        targets = {
            "settings": ("ctrl", [0x00] + settings + grease_c, range(1, 1 + len(settings))),
            "grease_ctrl": ("ctrl", [0x00] + settings + grease_c, range(1 + len(settings) + 1, 1 + len(settings) + len(grease_c))),
            "grease_hs": (req_tag, hs, range(1, len(grease_r))),
            "headers": (req_tag, hs, range(len(grease_r) + 1, len(hs))),
            "grease_session": (req_tag, grease_s, range(1, len(grease_s))),
            "capsule": (req_tag, cap, range(1, len(cap))),
        }
        plan = []
        for tname, (ttag, data, positions) in targets.items():
            positions = list(positions)
            for inj in injects:
                if role == "server" and ttag == "ctrl" and inj == "wt_bi":
                    # a bidirectional stream opened before the request stream would take stream id 0,
                    # i.e. become the would-be session stream itself: not a scenario about segmentation
                    continue
                plan.append((tname, inj, []))          # the unsegmented twin (control)
                for p in positions:
                    plan.append((tname, inj, [p]))
                if len(positions) >= 2:
                    for _ in range(3):
                        a, b = sorted(rng.sample(positions, 2))
                        plan.append((tname, inj, [a, b]))
        if tier == "quick":
            keep = [p for p in plan if not p[2] and p[1] == "none"][:6]
            rest = [p for p in plan if p[2]]
            # every (target, inject) pair once, at a seeded position
            seen = {}
            rng.shuffle(rest)
            for p in rest:
                seen.setdefault((p[0], p[1]), p)
            plan = keep + sorted(seen.values(), key=lambda x: (x[0], x[1]))
        for (tname, inj, cuts) in plan:
            ttag = targets[tname][0]
            injf = injector(inj, "ctrl" if ttag == "ctrl" else "req")

            def part(name, tag, data):
                if name == tname or (name == "ctrl_all" and tname in ("settings", "grease_ctrl")) or \
                        (name == "hs_all" and tname in ("grease_hs", "headers")):
                    return _pieces(tag, data, cuts, injf)
                return [step("peer", "write", tag=tag, bytes=data)]

            steps = [step("peer", "open_uni", tag="ctrl")]
            steps += part("ctrl_all", "ctrl", [0x00] + settings + grease_c)
            if role == "server":
                steps += [step("peer", "open_bi", tag="req")]
            else:
                steps += [step("peer", "wait_handle", tag="in0", ms=3000)]
            steps += part("hs_all", req_tag, hs)
            steps += [step("app", "adopt", ms=3000),
                      step("peer", "open_uni", tag="probe1"),
                      step("peer", "write", tag="probe1", bytes=wt_uni_preamble(live) + [0x71]),
                      step("app", "accept_uni", tag="probe1", ms=2500)]
            steps += part("grease_session", req_tag, grease_s)
            steps += [sleep(30), step("peer", "open_bi", tag="probe2"),
                      step("peer", "write", tag="probe2", bytes=wt_bi_preamble(live) + [0x72]),
                      step("app", "accept_bi", tag="probe2", ms=2500),
                      step("app", "spawn", op="accept_uni", tag="w1", ms=6000),
                      step("app", "spawn", op="accept_bi", tag="w2", ms=6000),
                      step("app", "spawn", op="recv_dgram", tag="w3", ms=6000),
                      sleep(30)]
            steps += part("capsule", req_tag, cap)
            steps += [step("app", "await", tag="w1", ms=7000), step("app", "await", tag="w2", ms=7000),
                      step("app", "await", tag="w3", ms=7000)]
            # injected streams / datagrams of the live session may legitimately satisfy a waiter:
            # keep asking until each kind of operation has reported the termination
            for r in range(3):
                steps += [step("app", "accept_uni", tag="l%d" % r, ms=2500),
                          step("app", "accept_bi", tag="m%d" % r, ms=2500),
                          step("app", "recv_dgram", tag="d%d" % r, ms=2500)]
            out.append({"scn": "C05-%04d" % n, "role": role, "peer": "raw", "manual": True, "settle_ms": 100,
                        "meta": {"prop": "C05", "target": tname, "inject": inj, "cuts": cuts,
                                 "ctrl_tag": "ctrl", "req_tag": req_tag, "sess_from": len(hs)},
                        "steps": steps})
            n += 1
    return out


# ----------------------------------------------------------------------------- C08

def c08(tier, seed):
    rng = random.Random(seed * 7919 + 8)
    out = []
    n = 0
    ns = [1, 5, 12, 40] if tier == "quick" else [1, 2, 5, 12, 40, 120, 300]
    plans = []
    for total in ns:
        for peer in ("raw", "wt"):
            for role in ("server", "client"):
                for tasks in (1, 2, 4):
                    for cancel in (None, 1, 4):
                        for delay in (0, 3):
                            plans.append((total, peer, role, tasks, cancel, delay))
    if tier == "quick":
        base = [p for p in plans if p[0] in (1, 5) and p[3] == 1 and p[4] is None and p[5] == 0]
        plans = base + pick(rng, [p for p in plans if p not in base], 40)
    else:
        plans = pick(rng, plans, 220)
    for (total, peer, role, tasks, cancel, delay) in plans:
        n_uni = total - total // 3
        n_bi = total // 3
        opener = "peer" if peer == "raw" else "app2"
        steps = []
        if peer == "raw":
            steps += [step("peer", "open_n", tag="ou", kind="uni", n=n_uni, sid=v62(0), ms=25000)]
            if n_bi:
                steps += [step("peer", "open_n", tag="ob", kind="bi", n=n_bi, sid=v62(0), ms=25000)]
        else:
            steps += [step("app2", "spawn", op="open_n_uni", tag="ou", n=n_uni, ms=25000)]
            if n_bi:
                steps += [step("app2", "spawn", op="open_n_bi", tag="ob", n=n_bi, ms=25000)]
        # acceptors: `tasks` per kind; each may take everything (they stop when the budget ends)
        budget = 6000 + total * 40
        for t in range(tasks):
            st = step("app", "spawn", op="accept_n_uni", tag="au%d" % t, n=n_uni, delay_ms=delay, ms=budget)
            if cancel:
                st["cancel_ms"] = cancel
            steps.append(st)
            if n_bi:
                st = step("app", "spawn", op="accept_n_bi", tag="ab%d" % t, n=n_bi, delay_ms=delay, ms=budget)
                if cancel:
                    st["cancel_ms"] = cancel
                steps.append(st)
        steps.append(step(opener, "await", tag="ou", ms=30000))
        if n_bi:
            steps.append(step(opener, "await", tag="ob", ms=30000))
        # the acceptors end when their budget runs out or they got everything; wait for them
        for t in range(tasks):
            steps.append(step("app", "await", tag="au%d" % t, ms=budget + 2000))
            if n_bi:
                steps.append(step("app", "await", tag="ab%d" % t, ms=budget + 2000))
        out.append({"scn": "C08-%04d" % n, "role": role, "peer": peer,
                    "meta": {"prop": "C08", "n": total, "tasks": tasks, "cancel_ms": cancel or 0, "delay_ms": delay},
                    "steps": steps})
        n += 1
    # every stream's preamble arrives in two pieces with a datagram in between (the driver has other things
    # to do while a preamble is incomplete): still each stream exactly once
    for role in ("server", "client"):
        for total in (9, 24):
            n_uni, n_bi = total - total // 3, total // 3
            budget = 6000 + total * 60
            steps = [step("peer", "open_n", tag="ou", kind="uni", n=n_uni, sid=v62(0), ms=25000, split=True),
                     step("peer", "open_n", tag="ob", kind="bi", n=n_bi, sid=v62(0), ms=25000, split=True),
                     step("app", "spawn", op="accept_n_uni", tag="au", n=n_uni, ms=budget),
                     step("app", "spawn", op="accept_n_bi", tag="ab", n=n_bi, ms=budget),
                     step("peer", "await", tag="ou", ms=30000), step("peer", "await", tag="ob", ms=30000),
                     step("app", "await", tag="au", ms=budget + 2000), step("app", "await", tag="ab", ms=budget + 2000)]
            out.append({"scn": "C08-%04d" % n, "role": role, "peer": "raw",
                        "meta": {"prop": "C08", "n": total, "tasks": 1, "split": True, "cancel_ms": 0, "delay_ms": 0},
                        "steps": steps})
            n += 1
    # accept futures polled exactly once and dropped when not ready, then reissued (cancel safety)
    once = [(peer, role, total, pause) for peer in ("raw", "wt") for role in ("server", "client")
            for total in (6, 16, 40) for pause in (1, 3)]
    if tier == "quick":
        once = pick(rng, once, 8)
    for (peer, role, total, pause) in once:
        n_uni, n_bi = total - total // 3, total // 3
        opener = "peer" if peer == "raw" else "app2"
        steps = []
        if peer == "raw":
            steps += [step("peer", "open_n", tag="ou", kind="uni", n=n_uni, sid=v62(0), ms=25000),
                      step("peer", "open_n", tag="ob", kind="bi", n=n_bi, sid=v62(0), ms=25000)]
        else:
            steps += [step("app2", "spawn", op="open_n_uni", tag="ou", n=n_uni, ms=25000),
                      step("app2", "spawn", op="open_n_bi", tag="ob", n=n_bi, ms=25000)]
        budget = 6000 + total * 60
        steps += [step("app", "spawn", op="accept_n_uni", tag="au", n=n_uni, poll_once=True, cancel_ms=pause, ms=budget),
                  step("app", "spawn", op="accept_n_bi", tag="ab", n=n_bi, poll_once=True, cancel_ms=pause, ms=budget),
                  step(opener, "await", tag="ou", ms=30000), step(opener, "await", tag="ob", ms=30000),
                  step("app", "await", tag="au", ms=budget + 2000), step("app", "await", tag="ab", ms=budget + 2000)]
        out.append({"scn": "C08-%04d" % n, "role": role, "peer": peer,
                    "meta": {"prop": "C08", "n": total, "tasks": 1, "poll_once": True, "cancel_ms": pause, "delay_ms": 0},
                    "steps": steps})
        n += 1
    # several tasks blocked in accept *before* the streams exist, each waiting for its own share
    # in one uninterrupted await: every one of them has to be woken
    quota_plans = [(peer, role, tasks, q, kind) for peer in ("raw", "wt") for role in ("server", "client")
                   for tasks in (2, 3, 5) for q in (1, 2) for kind in ("uni", "bi")]
    if tier == "quick":
        quota_plans = pick(rng, quota_plans, 12)
    for (peer, role, tasks, q, kind) in quota_plans:
        total = tasks * q
        opener = "peer" if peer == "raw" else "app2"
        steps = []
        for t in range(tasks):
            steps.append(step("app", "spawn", op="accept_n_" + kind, tag="a%d" % t, n=q, pure=True, ms=5000))
        steps.append(sleep(150))
        if peer == "raw":
            steps.append(step("peer", "open_n", tag="o", kind=kind, n=total, sid=v62(0), ms=25000))
        else:
            steps.append(step("app2", "spawn", op="open_n_" + kind, tag="o", n=total, ms=25000))
        steps.append(step(opener, "await", tag="o", ms=30000))
        for t in range(tasks):
            steps.append(step("app", "await", tag="a%d" % t, ms=7000))
        out.append({"scn": "C08-%04d" % n, "role": role, "peer": peer,
                    "meta": {"prop": "C08", "n": total, "tasks": tasks, "quota": q, "cancel_ms": 0, "delay_ms": 0},
                    "steps": steps})
        n += 1
    return out


# ----------------------------------------------------------------------------- C07

def c07(tier, seed):
    rng = random.Random(seed * 7919 + 7)
    out = []
    n = 0
    live = 0
    positions = ["partial1", "partial_sid", "pre_silent", "window"]
    ks = [1, 2, 3, 4, 5]
    plans = []
    for role in ("server", "client"):
        for kind in ("uni", "bi"):
            for pos in positions:
                for k in ks:
                    for order in ("stalled_first", "healthy_first"):
                        plans.append((role, kind, pos, k, order))
    if tier == "quick":
        must = [p for p in plans if p[3] in (1, 3, 4) and p[2] in ("partial1", "pre_silent") and p[4] == "stalled_first" and p[0] == "server"]
        plans = must + pick(rng, [p for p in plans if p not in must], 14)
    # one stream filled to its flow-control window and never read
    for role in ("server", "client"):
        for kind in ("uni", "bi"):
            plans.append((role, kind, "window_full", 1, "stalled_first"))
    # stalled preambles that complete later: in the end everything the peer opened is delivered
    late = [(role, kind, "late_complete", k, "stalled_first") for role in ("server", "client")
            for kind in ("uni", "bi") for k in (1, 4, 5)]
    if tier == "quick":
        late = [p for p in late if (p[1] == "uni" and p[3] == 4) or (p[1] == "bi" and p[3] == 1)]
    for (role, kind, pos, k, order) in late:
        pre = wt_uni_preamble(live) if kind == "uni" else wt_bi_preamble(live)
        steps, healthy, accepts = [], [], []
        for i in range(k):
            steps += [step("peer", "open_" + kind, tag="s%d" % i), step("peer", "write", tag="s%d" % i, bytes=pre[:1]), sleep(15)]
            healthy.append("s%d" % i)
        steps.append(sleep(60))
        # a complete stream of the same kind behind them, then unrelated connection events
        steps += [step("peer", "open_" + kind, tag="h1"), step("peer", "write", tag="h1", bytes=pre + [1, 2, 3]),
                  step("peer", "fin", tag="h1"), sleep(40)]
        healthy.append("h1")
        for j in range(3):
            steps += [step("peer", "dgram", bytes=varint(live // 4) + [7, j]), sleep(15)]
        steps += [step("app", "recv_dgram", ms=2500), sleep(40)]
        for i in range(k):
            steps += [step("peer", "write", tag="s%d" % i, bytes=pre[1:] + [1, 2, 3]), step("peer", "fin", tag="s%d" % i)]
        for i in range(k + 1):
            steps.append(step("app", "accept_" + kind, tag="a%d" % i, ms=5000))
            accepts.append("a%d" % i)
        for i in range(k + 1):
            steps.append(step("app", "read", tag="a%d" % i, ms=3000))
        steps += [step("app", "close", code=v62(4711), reason=[111, 107]), sleep(150)]
        out.append({"scn": "C07-%04d" % n, "role": role, "peer": "raw", "settle_ms": 80,
                    "meta": {"prop": "C07", "kind": kind, "pos": pos, "k": k, "order": order,
                             "healthy": healthy, "accepts": accepts},
                    "steps": steps})
        n += 1
    # streams of a reserved (GREASE) HTTP/3 type, type complete, then silence / some bytes and silence:
    # they are not WebTransport streams at all and may stay open for ever without holding anything
    gk = [(r, p, k) for r in ("server", "client") for p in ("grease_silent", "grease_data") for k in (1, 4, 5, 9)]
    if tier == "quick":
        gk = [g for g in gk if (g[0] == "server" and g[2] in (4, 5)) or (g[0] == "client" and g[1] == "grease_silent" and g[2] == 9)]
    for (role, pos, k) in gk:
        plans.append((role, "uni", pos, k, "stalled_first"))
    for (role, kind, pos, k, order) in plans:
        steps = []
        healthy, accepts = [], []
        hcount = [0]

        def healthy_pair():
            """one healthy uni and one healthy bidi stream, accepted and read"""
            st = []
            for hk in ("uni", "bi"):
                hcount[0] += 1
                tag = "h%d" % hcount[0]
                pre = wt_uni_preamble(live) if hk == "uni" else wt_bi_preamble(live)
                st += [step("peer", "open_" + hk, tag=tag),
                       step("peer", "write", tag=tag, bytes=pre + [1, 2, 3]),
                       step("peer", "fin", tag=tag),
                       step("app", "accept_" + hk, tag="a" + tag, ms=5000),
                       step("app", "read", tag="a" + tag, ms=3000)]
                healthy.append(tag)
                accepts.append("a" + tag)
            return st

        if order == "healthy_first":
            steps += healthy_pair()
        for i in range(k):
            tag = "s%d" % i
            pre = wt_uni_preamble(live) if kind == "uni" else wt_bi_preamble(live)
            steps.append(step("peer", "open_" + kind, tag=tag))
            if pos == "partial1":
                steps.append(step("peer", "write", tag=tag, bytes=pre[:1]))
            elif pos == "partial_sid":
                steps.append(step("peer", "write", tag=tag, bytes=pre[:2]))
            elif pos == "pre_silent":
                steps.append(step("peer", "write", tag=tag, bytes=pre))
                steps.append(step("app", "accept_" + kind, tag="x" + tag, ms=5000))   # accepted, never read
            elif pos == "grease_silent":
                steps.append(step("peer", "write", tag=tag, bytes=varint(0x21 + 0x1F * (i * 3))))
            elif pos == "grease_data":
                steps.append(step("peer", "write", tag=tag, bytes=varint(0x21 + 0x1F * (40 + i)) + [9, 9, 9, i]))
            elif pos == "window":
                steps.append(step("peer", "write", tag=tag, bytes=pre))
                steps.append(step("peer", "write", tag=tag, len=200000, salt=i, ms=300))
                steps.append(step("app", "accept_" + kind, tag="x" + tag, ms=5000))
            elif pos == "window_full":
                steps.append(step("peer", "write", tag=tag, bytes=pre))
                steps.append(step("app", "accept_" + kind, tag="x" + tag, ms=5000))
                steps.append(step("peer", "write", tag=tag, len=1400000, salt=i, ms=1500))   # blocks at the window
            steps.append(sleep(15))
        steps.append(sleep(60))
        steps += healthy_pair()
        for j in range(3):
            steps.append(step("peer", "dgram", bytes=varint(live // 4) + [7, j]))
        steps += [sleep(30), step("app", "recv_dgram", ms=2500)]
        steps += healthy_pair()
        steps += [step("app", "close", code=v62(4711), reason=[111, 107]), sleep(150)]
        out.append({"scn": "C07-%04d" % n, "role": role, "peer": "raw", "settle_ms": 80,
                    "meta": {"prop": "C07", "kind": kind, "pos": pos, "k": k, "order": order,
                             "healthy": healthy, "accepts": accepts},
                    "steps": steps})
        n += 1
    return out


# ----------------------------------------------------------------------------- C09

def c09(tier, seed):
    rng = random.Random(seed * 7919 + 9)
    out = []
    n = 0
    live = 0
    causes = ["peer_close", "capsule", "fin", "proto", "local_close", "idle", "drop", "drop_stalled"]
    pend_sets = [["accept_uni", "accept_bi", "recv_dgram"], ["closed", "accept_uni"], ["read", "stopped"],
                 ["accept_uni", "read", "closed", "recv_dgram", "accept_bi", "stopped"], []]
    plans = []
    for role in ("server", "client"):
        for cause in causes:
            for ps in pend_sets:
                for clones in (0, 2):
                    plans.append((role, cause, ps, clones))
    if tier == "quick":
        must = [p for p in plans if p[2] == pend_sets[3] and p[3] == 0]
        plans = must + pick(rng, [p for p in plans if p not in must], 16)
    big_codes = [0, 7, 16384, (1 << 32) + 7, (1 << 40) + 12345, (1 << 62) - 2, (1 << 62) - 1]
    # the connection ends after the request reached the server application and before it decides
    pre = [(cause, dec) for cause in ("peer_close", "idle") for dec in ("accept", "accept_headers", "forbidden")]
    for k, (cause, dec) in enumerate(pre):
        code = big_codes[(k + 3) % len(big_codes)]
        steps = [step("peer", "open_uni", tag="ctrl"),
                 step("peer", "write", tag="ctrl", bytes=[0x00] + frame(4, SETTINGS_PAYLOAD)),
                 step("peer", "open_bi", tag="hs"),
                 step("peer", "write", tag="hs", bytes=frame(1, request_headers())),
                 sleep(250), {"who": "h", "a": "mark", "name": "cause"}]
        if cause == "peer_close":
            steps += [step("peer", "close", code=v62(code), reason=list(b"changed my mind")), sleep(900)]
        else:
            steps += [sleep(2200)]
        scn = {"scn": "C09-%04d" % n, "role": "server", "peer": "raw", "manual": True, "settle_ms": 100,
               "decision": dec, "decide_delay_ms": 700 if cause == "peer_close" else 1800,
               "cfg": {"idle_ms": 700, "peer_idle_ms": 30000} if cause == "idle" else {},
               "meta": {"prop": "C09", "cause": cause, "variant": "predecision", "pending": [], "clones": 0},
               "steps": steps}
        if dec == "accept_headers":
            scn["extra"] = [["x-late", "1"]]
        out.append(scn)
        n += 1
    # calls that are pending for a different reason: a write stopped at the peer's flow-control window
    # (the peer never reads), an open waiting for stream credit; and Endpoint::close as the local cause
    extra = []
    for role in ("server", "client"):
        for cause in ("peer_close", "local_close", "endpoint_close", "idle", "capsule"):
            for pend in ("write_blocked", "open_limit", "accepts"):
                extra.append((role, cause, pend))
    if tier == "quick":
        extra = [e for e in extra if e[1] in ("peer_close", "endpoint_close")] + pick(rng, [e for e in extra if e[1] not in ("peer_close", "endpoint_close")], 4)
    for k, (role, cause, pend) in enumerate(extra):
        cfg = {"peer_stream_window": 64, "peer_no_read": True} if pend == "write_blocked" else \
              ({"peer_max_uni": 1} if pend == "open_limit" else {})
        if cause == "idle":
            cfg = dict(cfg, idle_ms=700, peer_idle_ms=30000)
        steps, tags = [], []
        if pend == "write_blocked":
            steps += [step("app", "open_uni", tag="sw", ms=4000),
                      step("app", "spawn", op="write", tag="sw", len=5000, salt=3, ms=6000)]
            tags.append("sw")
        elif pend == "open_limit":
            steps += [step("app", "spawn", op="open_uni", tag="lo", ms=6000)]
            tags.append("lo")
        else:
            steps += [step("app", "spawn", op="accept_uni", tag="p1", ms=6000),
                      step("app", "spawn", op="closed", tag="p2", ms=6000)]
            tags += ["p1", "p2"]
        steps += [sleep(150), {"who": "h", "a": "mark", "name": "cause"}]
        code = big_codes[(k + 2) % len(big_codes)]
        if cause == "peer_close":
            steps.append(step("peer", "close", code=v62(code), reason=list(b"over")))
        elif cause == "local_close":
            steps.append(step("app", "close", code=v62(code), reason=list(b"bye")))
        elif cause == "endpoint_close":
            steps.append(step("app", "close_endpoint", code=v62(code), reason=list(b"endpoint gone")))
        elif cause == "capsule":
            steps.append(step("peer", "write", tag="req", bytes=close_capsule_frame(77, b"c09x")))
        else:
            steps.append(sleep(1700))
        for t in tags:
            steps.append(step("app", "await", tag=t, ms=7000))
        steps += [sleep(100), step("app", "accept_uni", tag="l1", ms=5000), step("app", "open_bi", tag="l5", ms=5000),
                  step("app", "recv_dgram", tag="l3", ms=5000)]
        if pend == "write_blocked":
            steps += [step("app", "write", tag="sw", len=3, salt=2, ms=5000), step("app", "finish", tag="sw", ms=5000),
                      step("app", "finish", tag="sw", ms=5000)]
        out.append({"scn": "C09-%04d" % n, "role": role, "peer": "raw", "cfg": cfg, "settle_ms": 100,
                    "meta": {"prop": "C09", "cause": "local_close" if cause == "endpoint_close" else cause,
                             "variant": cause + "/" + pend, "pending": [pend], "clones": 0},
                    "steps": steps})
        n += 1
    nclose = 0
    for pi, (role, cause, ps, clones) in enumerate(plans):
        drop = cause.startswith("drop")
        cfg = {}
        if cause == "idle":
            cfg = {"idle_ms": 700, "peer_idle_ms": 30000}
        steps = []
        for _ in range(clones):
            steps.append(step("app", "clone_conn"))
        # streams for the stream-level pending operations
        steps += [step("peer", "open_uni", tag="pu"),
                  step("peer", "write", tag="pu", bytes=wt_uni_preamble(live) + [1, 2, 3]),
                  step("app", "accept_uni", tag="ru", ms=4000),
                  step("app", "open_uni", tag="su"),
                  step("app", "write", tag="su", len=4, salt=1)]
        if cause == "drop_stalled":
            steps += [step("peer", "open_uni", tag="st"), step("peer", "write", tag="st", bytes=[0x40]),
                      step("peer", "open_bi", tag="sb"), step("peer", "write", tag="sb", bytes=[0x40]), sleep(40)]
        k = 0
        tags = []
        for op in ps:
            if drop:
                continue          # any pending call holds a handle: "all handles dropped" excludes them
            k += 1
            tag = "p%d" % k
            if op == "read":
                steps.append(step("app", "spawn", op="read", tag="ru", ms=6000, limit=100))
                tags.append("ru")
            elif op == "stopped":
                steps.append(step("app", "spawn", op="stopped", tag="su", ms=6000))
                tags.append("su")
            else:
                steps.append(step("app", "spawn", op=op, tag=tag, ms=6000))
                tags.append(tag)
        steps.append(sleep(60))
        steps.append({"who": "h", "a": "mark", "name": "cause"})
        if cause == "peer_close":
            nclose += 1
            steps.append(step("peer", "close", code=v62(big_codes[(nclose + 3) % len(big_codes)]), reason=list(b"over")))
        elif cause == "capsule":
            steps.append(step("peer", "write", tag="req", bytes=close_capsule_frame(rng.choice([0, 9, (1 << 32) - 1]), b"c09")))
        elif cause == "fin":
            steps.append(step("peer", "fin", tag="req"))
        elif cause == "proto":
            steps.append(step("peer", "write", tag="ctrl", bytes=frame(0, b"x")))
        elif cause == "local_close":
            nclose += 1
            steps.append(step("app", "close", code=v62(big_codes[(nclose + 3) % len(big_codes)]), reason=list(b"bye")))
        elif cause == "idle":
            steps.append(sleep(1700))
        else:
            # every handle: the streams too (a stream handle keeps the QUIC connection referenced)
            steps += [step("app", "drop_stream", tag="ru"), step("app", "drop_stream", tag="su"),
                      step("app", "drop_conn")]
        for t in tags:
            steps.append(step("app", "await", tag=t, ms=7000))
        if drop:
            steps.append(sleep(3500))
        else:
            steps.append(sleep(100))
            steps += [step("app", "accept_uni", tag="l1", ms=5000), step("app", "accept_bi", tag="l2", ms=5000),
                      step("app", "recv_dgram", tag="l3", ms=5000), step("app", "open_uni", tag="l4", ms=5000),
                      step("app", "open_bi", tag="l5", ms=5000), step("app", "closed", tag="l6", ms=5000),
                      step("app", "read", tag="ru", ms=5000, limit=100), step("app", "write", tag="su", len=3, salt=2, ms=5000),
                      step("app", "finish", tag="su", ms=5000), step("app", "finish", tag="su", ms=5000),
                      step("app", "stopped", tag="su", ms=5000)]
        out.append({"scn": "C09-%04d" % n, "role": role, "peer": "raw", "cfg": cfg, "settle_ms": 100,
                    "meta": {"prop": "C09", "cause": "drop" if drop else cause, "variant": cause, "pending": ps, "clones": clones},
                    "steps": steps})
        n += 1
    return out


# ----------------------------------------------------------------------------- C10

def c10(tier, seed):
    out = []
    n = 0
    identities = ["pinned14", "days15", "expired", "future", "p384", "ed25519"]
    trusts = ["hash_own", "hash_many_own", "hash_other", "hash_none", "native", "none"]
    for ident in identities:
        for trust in trusts:
            for role in (("client", "server") if tier == "thorough" else ("client",)):
                out.append({"scn": "C10-%04d" % n, "role": role, "peer": "wt",
                            "cfg": {"server_identity": ident, "client_trust": trust},
                            "meta": {"prop": "C10", "identity": ident, "trust": trust},
                            "steps": []})
                n += 1
    return out
