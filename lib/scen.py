"""Scenario generators for the end-to-end harness. They produce *inputs* (what the
peer and the application do); expectations live in the TLA+ monitors."""
import random


def varint(v, n=None):
    if n is None:
        n = 1 if v < 64 else 2 if v < 16384 else 4 if v < (1 << 30) else 8
    tag = {1: 0, 2: 1, 4: 2, 8: 3}[n]
    b = list(v.to_bytes(n, "big"))
    b[0] = (b[0] & 0x3F) | (tag << 6)
    return b


def frame(ty, payload):
    return varint(ty) + varint(len(payload)) + list(payload)


def wt_uni_preamble(sid):
    return varint(0x54) + varint(sid)


def wt_bi_preamble(sid):
    return varint(0x41) + varint(sid)


def capsule(ty, value):
    return varint(ty) + varint(len(value)) + list(value)


def close_capsule_frame(code, reason):
    return frame(0, capsule(0x2843, list(code.to_bytes(4, "big")) + list(reason)))


def v62(v):
    return [v >> 31, v & 0x7FFFFFFF]


def step(who, a, **kw):
    d = {"who": who, "a": a}
    d.update(kw)
    return d


def sleep(ms):
    return {"who": "h", "a": "sleep", "ms": ms}


SETTINGS_PAYLOAD = []
for _i, _v in [(0x01, 0), (0x07, 0), (0x08, 1), (0x33, 1), (0x2B603742, 1), (0xC671706A, 1)]:
    SETTINGS_PAYLOAD += varint(_i) + varint(_v)


def pick(rng, xs, k):
    xs = list(xs)
    if k >= len(xs):
        return xs
    return rng.sample(xs, k)


# ----------------------------------------------------------------------------- C04

def c04(tier, seed):
    rng = random.Random(seed * 7919 + 4)
    styles = []
    codes = [0, 1, 255, 256, 65535, 1 << 31, (1 << 32) - 1]
    reasons = [b"", b"x", "grüß \U0001F44B".encode(), b"r" * 1023, b"r" * 1024]
    for c in codes:
        for r in reasons:
            styles.append(("capsule", {"bytes": close_capsule_frame(c, r)}))
    # a GREASE frame and an unknown capsule before the close capsule change nothing
    styles.append(("capsule_after_noise",
                   {"bytes": frame(0x21, b"zz") + frame(0, capsule(0x1234, b"abc")) + close_capsule_frame(77, b"after noise")}))
    styles.append(("fin", {}))
    for c in [0, 0x10C, (1 << 62) - 1]:
        styles.append(("reset", {"code": c}))
    styles.append(("fin_in_frame", {"bytes": [0x00, 0x08, 0x68, 0x43]}))
    styles.append(("fin_in_frame", {"bytes": [0x00]}))
    styles.append(("fin_in_frame", {"bytes": [0x40]}))
    styles.append(("bad_capsule", {"bytes": close_capsule_frame(1, b"r" * 1025)}))
    styles.append(("bad_capsule", {"bytes": close_capsule_frame(1, b"\xff\xfe")}))
    styles.append(("bad_capsule", {"bytes": close_capsule_frame(1, b"\xe2\x82")}))
    styles.append(("bad_capsule", {"bytes": frame(0, capsule(0x2843, b"\x00\x00\x01"))}))
    styles.append(("bad_capsule", {"bytes": frame(0, capsule(0x2843, b""))}))
    for c in [0, 63, 64, 16383, 16384, (1 << 30) - 1, 1 << 30, (1 << 62) - 1]:
        for r in [b"", b"bye", bytes(range(256))[:200]]:
            styles.append(("quic_close", {"code": c, "reason": list(r)}))
    points = ["pending", "streams", "later_only", "idle_long"]
    roles = ["server", "client"]
    combos = [(ro, p, st) for ro in roles for p in points for st in styles]
    if tier == "quick":
        # every style at least once, spread over roles/points
        chosen = []
        for i, st in enumerate(styles):
            chosen.append((roles[i % 2], points[(i // 2) % 4], st))
        chosen += pick(rng, combos, 30)
        combos = chosen
    out = []
    for n, (role, point, (style, par)) in enumerate(combos):
        steps = []
        if point in ("pending", "streams", "idle_long"):
            steps += [step("app", "spawn", op="accept_uni", tag="w1", ms=6000),
                      step("app", "spawn", op="accept_bi", tag="w2", ms=6000),
                      step("app", "spawn", op="recv_dgram", tag="w3", ms=6000)]
        if point == "streams":
            sid = 0
            steps += [step("peer", "open_uni", tag="pu"),
                      step("peer", "write", tag="pu", bytes=wt_uni_preamble(sid) + [1, 2, 3]),
                      step("app", "open_uni", tag="au"),
                      step("app", "write", tag="au", len=20, salt=1),
                      step("app", "open_bi", tag="ab"),
                      step("app", "write", tag="ab", len=5, salt=2)]
        steps.append(sleep(200 if point == "idle_long" else 40))
        # the peer terminates
        if style in ("capsule", "capsule_after_noise", "bad_capsule"):
            steps.append(step("peer", "write", tag="req", bytes=par["bytes"]))
        elif style == "fin":
            steps.append(step("peer", "fin", tag="req"))
        elif style == "reset":
            steps.append(step("peer", "reset", tag="req", code=v62(par["code"])))
        elif style == "fin_in_frame":
            steps.append(step("peer", "write", tag="req", bytes=par["bytes"]))
            steps.append(sleep(30))
            steps.append(step("peer", "fin", tag="req"))
        elif style == "quic_close":
            steps.append(step("peer", "close", code=v62(par["code"]), reason=par["reason"]))
        for t in ("w1", "w2", "w3"):
            if point != "later_only":
                steps.append(step("app", "await", tag=t, ms=7000))
        if point == "later_only":
            steps.append(sleep(150))
        steps += [step("app", "accept_uni", tag="l1", ms=5000),
                  step("app", "accept_bi", tag="l2", ms=5000),
                  step("app", "recv_dgram", tag="l3", ms=5000)]
        out.append({"scn": "C04-%04d" % n, "role": role, "peer": "raw",
                    "meta": {"prop": "C04", "style": style, "point": point},
                    "steps": steps})
    return out
