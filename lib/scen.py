"""Scenario generators for the end-to-end harness. They produce *inputs* (what the
peer and the application do); expectations live in the TLA+ monitors."""
import random


def varint(v, n=None):
    if n is None:
        n = 1 if v < 64 else 2 if v < 16384 else 4 if v < (1 << 30) else 8
    tag = {1: 0, 2: 1, 4: 2, 8: 3}[n]
    b = list(v.to_bytes(n, "big"))
    b[0] = (b[0] & 0x3F) | (tag << 6)
    return b


def frame(ty, payload):
    return varint(ty) + varint(len(payload)) + list(payload)


def wt_uni_preamble(sid):
    return varint(0x54) + varint(sid)


def wt_bi_preamble(sid):
    return varint(0x41) + varint(sid)


def capsule(ty, value):
    return varint(ty) + varint(len(value)) + list(value)


def close_capsule_frame(code, reason):
    return frame(0, capsule(0x2843, list(code.to_bytes(4, "big")) + list(reason)))


def v62(v):
    return [v >> 31, v & 0x7FFFFFFF]


def step(who, a, **kw):
    d = {"who": who, "a": a}
    d.update(kw)
    return d


def sleep(ms):
    return {"who": "h", "a": "sleep", "ms": ms}


SETTINGS_PAYLOAD = []
for _i, _v in [(0x01, 0), (0x07, 0), (0x08, 1), (0x33, 1), (0x2B603742, 1), (0xC671706A, 1)]:
    SETTINGS_PAYLOAD += varint(_i) + varint(_v)


def pick(rng, xs, k):
    xs = list(xs)
    if k >= len(xs):
        return xs
    return rng.sample(xs, k)


# ----------------------------------------------------------------------------- C04

def c04(tier, seed):
    rng = random.Random(seed * 7919 + 4)
    styles = []
    codes = [0, 1, 255, 256, 65535, 1 << 31, (1 << 32) - 1]
    reasons = [b"", b"x", "grüß \U0001F44B".encode(), b"r" * 1023, b"r" * 1024]
    for c in codes:
        for r in reasons:
            styles.append(("capsule", {"bytes": close_capsule_frame(c, r)}))
    # a GREASE frame and an unknown capsule before the close capsule change nothing
    styles.append(("capsule_after_noise",
                   {"bytes": frame(0x21, b"zz") + frame(0, capsule(0x1234, b"abc")) + close_capsule_frame(77, b"after noise")}))
    styles.append(("fin", {}))
    for c in [0, 0x10C, (1 << 62) - 1]:
        styles.append(("reset", {"code": c}))
    styles.append(("fin_in_frame", {"bytes": [0x00, 0x08, 0x68, 0x43]}))
    styles.append(("fin_in_frame", {"bytes": [0x00]}))
    styles.append(("fin_in_frame", {"bytes": [0x40]}))
    styles.append(("bad_capsule", {"bytes": close_capsule_frame(1, b"r" * 1025)}))
    styles.append(("bad_capsule", {"bytes": close_capsule_frame(1, b"\xff\xfe")}))
    styles.append(("bad_capsule", {"bytes": close_capsule_frame(1, b"\xe2\x82")}))
    styles.append(("bad_capsule", {"bytes": frame(0, capsule(0x2843, b"\x00\x00\x01"))}))
    styles.append(("bad_capsule", {"bytes": frame(0, capsule(0x2843, b""))}))
    for c in [0, 63, 64, 16383, 16384, (1 << 30) - 1, 1 << 30, (1 << 62) - 1]:
        for r in [b"", b"bye", bytes(range(256))[:200]]:
            styles.append(("quic_close", {"code": c, "reason": list(r)}))
    points = ["pending", "streams", "later_only", "idle_long"]
    roles = ["server", "client"]
    combos = [(ro, p, st) for ro in roles for p in points for st in styles]
    if tier == "quick":
        # every style at least once, spread over roles/points
        chosen = []
        for i, st in enumerate(styles):
            chosen.append((roles[i % 2], points[(i // 2) % 4], st))
        chosen += pick(rng, combos, 30)
        combos = chosen
    out = []
    for n, (role, point, (style, par)) in enumerate(combos):
        steps = []
        if point in ("pending", "streams", "idle_long"):
            steps += [step("app", "spawn", op="accept_uni", tag="w1", ms=6000),
                      step("app", "spawn", op="accept_bi", tag="w2", ms=6000),
                      step("app", "spawn", op="recv_dgram", tag="w3", ms=6000)]
        if point == "streams":
            sid = 0
            steps += [step("peer", "open_uni", tag="pu"),
                      step("peer", "write", tag="pu", bytes=wt_uni_preamble(sid) + [1, 2, 3]),
                      step("app", "open_uni", tag="au"),
                      step("app", "write", tag="au", len=20, salt=1),
                      step("app", "open_bi", tag="ab"),
                      step("app", "write", tag="ab", len=5, salt=2)]
        steps.append(sleep(200 if point == "idle_long" else 40))
        # the peer terminates
        if style in ("capsule", "capsule_after_noise", "bad_capsule"):
            steps.append(step("peer", "write", tag="req", bytes=par["bytes"]))
        elif style == "fin":
            steps.append(step("peer", "fin", tag="req"))
        elif style == "reset":
            steps.append(step("peer", "reset", tag="req", code=v62(par["code"])))
        elif style == "fin_in_frame":
            steps.append(step("peer", "write", tag="req", bytes=par["bytes"]))
            steps.append(sleep(30))
            steps.append(step("peer", "fin", tag="req"))
        elif style == "quic_close":
            steps.append(step("peer", "close", code=v62(par["code"]), reason=par["reason"]))
        for t in ("w1", "w2", "w3"):
            if point != "later_only":
                steps.append(step("app", "await", tag=t, ms=7000))
        if point == "later_only":
            steps.append(sleep(150))
        steps += [step("app", "accept_uni", tag="l1", ms=5000),
                  step("app", "accept_bi", tag="l2", ms=5000),
                  step("app", "recv_dgram", tag="l3", ms=5000)]
        out.append({"scn": "C04-%04d" % n, "role": role, "peer": "raw",
                    "meta": {"prop": "C04", "style": style, "point": point},
                    "steps": steps})
    return out


# ----------------------------------------------------------------------------- C01

W = 1_250_000   # quinn's default per-stream receive window


def c01(tier, seed):
    rng = random.Random(seed * 7919 + 1)
    out = []
    n = 0

    def add(role, peer, steps, meta, cfg=None):
        nonlocal n
        s = {"scn": "C01-%04d" % n, "role": role, "peer": peer, "meta": dict(meta, prop="C01"),
             "steps": steps}
        if cfg:
            s["cfg"] = cfg
        out.append(s)
        n += 1

    # (i) two wtransport endpoints
    lens_small = [0, 1, 2, 63, 64, 65, 16383, 16384, 65536]
    lens_big = [W - 1, W, W + 1, 3 * W]
    cases = []
    for role in ("client", "server"):
        for kind in ("uni", "bi"):
            for ln in lens_small + lens_big:
                cases.append((role, kind, ln))
    if tier == "quick":
        keep = [c for c in cases if c[2] in (0, 1, 64, 16384)] + \
               [("client", "bi", W + 1), ("server", "uni", 3 * W), ("server", "bi", 65536), ("client", "uni", W)]
        cases = keep
    for (role, kind, ln) in cases:
        chunks = [0]
        if ln and ln <= 65:
            chunks += [1]
        if ln >= 2:
            chunks += [max(1, ln // 2), 1 + rng.randrange(min(ln, 70000))]
        bufs = [4096, 65536, 7, 2] + ([1] if ln <= 65 else [])
        if tier == "quick":
            chunks = [rng.choice(chunks)]
            bufs = [rng.choice(bufs)]
        for chunk in chunks:
            for buf in (bufs if tier != "quick" else bufs[:1]):
                if ln > 100000 and buf < 4096:
                    continue
                salt = rng.randrange(200)
                op_open = "open_" + kind
                op_acc = "accept_" + kind
                steps = [step("app", op_open, tag="s"),
                         step("app", "spawn", op="write", tag="s", len=ln, salt=salt, chunk=chunk,
                              then_finish=True, ms=20000),
                         step("app2", op_acc, tag="s", ms=5000),
                         step("app2", "read", tag="s", buf=buf, salt=salt, ms=20000)]
                if kind == "bi":
                    # the return direction carries no preamble
                    salt2 = salt + 1
                    back = min(ln, 70000) + 3
                    steps += [step("app2", "spawn", op="write", tag="s", len=back, salt=salt2,
                                   chunk=chunk if chunk <= back else 0, then_finish=True, ms=20000),
                              step("app", "read", tag="s", buf=buf, salt=salt2, ms=20000)]
                steps += [step("app", "await", tag="s", ms=20000)]
                if kind == "bi":
                    steps += [step("app2", "await", tag="s", ms=20000)]
                add(role, "wt", steps, {"family": "wt-wt", "kind": kind, "len": ln, "chunk": chunk, "buf": buf})
    # concurrent streams
    for role in ("client", "server"):
        for nstreams in ([2, 8] if tier == "quick" else [2, 8, 40]):
            steps = []
            for k in range(nstreams):
                kind = "uni" if k % 2 == 0 else "bi"
                steps += [step("app", "open_" + kind, tag="s%d" % k),
                          step("app", "spawn", op="write", tag="s%d" % k, len=1000 + 997 * k,
                               salt_from_id=True, chunk=0 if k % 3 else 333, then_finish=True, ms=20000)]
            # accept in whatever order they surface; streams are told apart by their id
            for k in range(nstreams):
                kind = "uni" if k % 2 == 0 else "bi"
                steps += [step("app2", "accept_" + kind, tag="r%d" % k, ms=5000)]
            # accept order need not be open order: both ends derive the pattern salt from the stream id
            for k in range(nstreams):
                steps += [step("app2", "read", tag="r%d" % k, buf=4096, ms=20000, salt_from_id=True)]
            for k in range(nstreams):
                steps += [step("app", "await", tag="s%d" % k, ms=20000)]
            add(role, "wt", steps, {"family": "concurrent", "n": nstreams})

    # (ii) raw peer writes a WebTransport stream whose preamble is cut at every position
    sid = 0
    pre_uni = [varint(0x54) + varint(sid), varint(0x54, 4) + varint(sid, 2), varint(0x54, 8) + varint(sid, 8)]
    pre_bi = [varint(0x41) + varint(sid), varint(0x41, 4) + varint(sid, 2), varint(0x41, 8) + varint(sid, 4)]
    payload = [0x54, 0x00, 0x41, 0x00, 0x40, 0x54, 9, 8, 7]     # looks like preambles itself
    for role in ("server", "client"):
        for kind, pres in (("uni", pre_uni), ("bi", pre_bi)):
            for pre in pres:
                wire = pre + payload
                cuts = [[c] for c in range(1, len(pre) + 2)]
                if len(pre) <= 4:
                    cuts += [[a, b] for a in range(1, len(pre) + 1) for b in range(a + 1, len(pre) + 2)]
                cuts.append([])
                if tier == "quick":
                    cuts = pick(rng, cuts, 4)
                for cut in cuts:
                    steps = [step("peer", "open_" + kind, tag="p")]
                    prev = 0
                    for c in cut + [len(wire)]:
                        steps.append(step("peer", "write", tag="p", bytes=wire[prev:c]))
                        steps.append(sleep(25))
                        prev = c
                    steps += [step("peer", "fin", tag="p"),
                              step("app", "accept_" + kind, tag="a", ms=5000),
                              step("app", "read", tag="a", buf=3, ms=5000)]
                    if kind == "bi":
                        steps += [step("app", "write", tag="a", len=10, salt=5, then_finish=True)]
                    # and the other way round: the endpoint opens, the raw peer records
                    steps += [step("app", "open_" + kind, tag="o"),
                              step("app", "write", tag="o", len=33, salt=9, chunk=5, then_finish=True)]
                    steps.append(sleep(60))
                    add(role, "raw", steps, {"family": "raw-cut", "kind": kind, "cut": cut, "pre": pre})
    return out


# ----------------------------------------------------------------------------- C02

def _can_bind_443():
    import socket
    try:
        s = socket.socket(socket.AF_INET, socket.SOCK_DGRAM)
        s.bind(("127.0.0.1", 443))
        s.close()
        return True
    except OSError:
        return False


def _hdr_classes(rng):
    shrink = lambda n: "".join("aeiost"[i % 6] for i in range(n))          # Huffman shrinks
    noshrink = lambda n: "".join("#$<>{}~^"[i % 8] for i in range(n))     # Huffman would grow
    vals = [""] + [f(n) for n in (1, 6, 7, 8, 126, 127, 128, 300) for f in (shrink, noshrink)]
    names_static = ["origin", "user-agent", "content-type", "accept-language", "cookie", "referer",
                    "accept-encoding", "x-frame-options"]
    names_lit = ["x", "x-a", "sec-webtransport-http3-draft", "abcdefg", "abcdefgh", "q" * 126, "q" * 127,
                 "q" * 128, "a.b_c~d", "0digit", "x-" + shrink(20)]
    return names_static, names_lit, vals


def c02(tier, seed):
    rng = random.Random(seed * 7919 + 2)
    names_static, names_lit, vals = _hdr_classes(rng)
    decisions = ["accept", "accept_headers", "forbidden", "not_found", "too_many"]
    hosts = [("127.0.0.1", {}), ("localhost", {}), ("a.b-c.example", {}), ("[::1]", {"bind": "dual"})]
    paths = ["", "/", "/a/b/c", "/chat/room1/", "/A.b-c_d~e"]
    queries = ["", "?", "?a=b&c=d", "?x"]
    urls = []
    for h, cfg in hosts:
        for p in paths:
            for q in queries:
                urls.append(("https://%s:{port}%s%s" % (h, p, q), cfg))
    if _can_bind_443():
        for h in ("127.0.0.1", "localhost"):
            urls.append(("https://%s/" % h, {"port": 443}))
            urls.append(("https://%s:443/p?q=1" % h, {"port": 443}))
            urls.append(("https://%s" % h, {"port": 443}))
    header_sets = [[]]
    for nm in names_static + names_lit:
        header_sets.append([(nm, rng.choice(vals))])
    for v in vals:
        header_sets.append([(rng.choice(names_static + names_lit), v)])
    header_sets.append([("origin", "https://example.org"), ("user-agent", "wtv/1"), ("x-a", "1"), ("x-b", "")])
    # values that equal a static-table entry exactly
    header_sets.append([("content-type", "text/plain"), ("accept-encoding", "gzip, deflate, br"),
                        ("x-frame-options", "deny")])
    for _ in range(20):
        hs = {}
        for _ in range(rng.randrange(1, 7)):
            hs[rng.choice(names_static + names_lit)] = rng.choice(vals)
        header_sets.append(sorted(hs.items()))
    combos = []
    for i, (url, cfg) in enumerate(urls):
        combos.append((url, cfg, header_sets[i % len(header_sets)], decisions[i % 5], header_sets[(i * 7 + 3) % len(header_sets)]))
    for i, hs in enumerate(header_sets):
        url, cfg = urls[(i * 5 + 1) % len(urls)]
        combos.append((url, cfg, hs, decisions[(i + 2) % 5], header_sets[(i * 3 + 1) % len(header_sets)]))
    for d in decisions:
        for role in ("client", "server"):
            combos.append((urls[0][0], urls[0][1], header_sets[-1], d, header_sets[-2]))
    if tier == "quick":
        combos = combos[:10] + pick(rng, combos[10:], 50)
    out = []
    for n, (url, cfg, hdrs, decision, extra) in enumerate(combos):
        role = "client" if n % 2 == 0 else "server"
        extra = [(k, v) for (k, v) in extra if not k.startswith(":")]
        s = {"scn": "C02-%04d" % n, "role": role, "peer": "wt", "url": url,
             "headers": [[k, v] for k, v in hdrs], "decision": decision,
             "extra": [[k, v] for k, v in extra], "cfg": dict(cfg),
             "meta": {"prop": "C02", "decision": decision,
                      "hdrs": [[list(k.encode()), list(v.encode())] for k, v in hdrs]},
             "steps": []}
        out.append(s)
    return out


# ----------------------------------------------------------------------------- C03

def c03(tier, seed):
    rng = random.Random(seed * 7919 + 3)
    out = []
    n = 0

    def add(role, peer, steps, meta, cfg=None):
        nonlocal n
        s = {"scn": "C03-%04d" % n, "role": role, "peer": peer, "meta": dict(meta, prop="C03"),
             "steps": steps}
        if cfg:
            s["cfg"] = cfg
        out.append(s)
        n += 1

    limits = [0, 1, 2, 5, 8, 9, 10, 11, 100, 1200, 65535]
    if tier == "quick":
        limits = [0, 1, 5, 9, 100, 65535]
    salt = 0
    for role in ("server", "client"):
        for lim in limits:
            steps = [step("app", "max_dgram")]
            for rel in (0, -1, 1, 8):
                salt += 1
                steps.append(step("app", "send_dgram", rel=rel, salt=salt))
                steps.append(step("app", "max_dgram"))
            for ln in (0, 1, 2, 50):
                salt += 1
                steps.append(step("app", "send_dgram", len=ln, salt=salt))
            steps.append(sleep(60))
            add(role, "raw", steps, {"family": "limits", "limit": lim}, {"peer_dgram_recv": lim})
    # peer -> application, live and foreign sessions interleaved
    for role in ("server", "client"):
        steps = []
        k = 0
        for q in (0, 1, 0, 64, 0, (1 << 60) - 1, 0):
            k += 1
            body = [k, 0x00, 0x41, 0x54, k]          # looks like framing itself
            steps.append(step("peer", "dgram", bytes=varint(q) + body))
            steps.append(sleep(15))
            if q == 0:
                steps.append(step("app", "recv_dgram", ms=800))
        steps.append(step("peer", "dgram", bytes=varint(0)))         # empty payload
        steps.append(step("app", "recv_dgram", ms=800))
        steps.append(step("peer", "dgram", bytes=varint(0, 8) + [1]))   # non-shortest quarter id
        steps.append(step("app", "recv_dgram", ms=800))
        steps.append(step("app", "recv_dgram", ms=150))                 # nothing left: foreign ones are dropped
        add(role, "raw", steps, {"family": "peer-to-app"})
    # two wtransport endpoints, both directions interleaved
    for role in ("client", "server"):
        lens = [0, 1, 2, 100, 1000, 1200]
        steps = []
        for i, ln in enumerate(lens):
            salt += 1
            steps.append(step("app", "send_dgram", len=ln, salt=salt))
            salt += 1
            steps.append(step("app2", "send_dgram", len=ln + 1, salt=salt))
            if i % 2:
                steps.append(step("app2", "recv_dgram", ms=500))
                steps.append(step("app", "recv_dgram", ms=500))
        for _ in lens:
            steps.append(step("app2", "recv_dgram", ms=300))
            steps.append(step("app", "recv_dgram", ms=300))
        steps += [step("app", "max_dgram"), step("app2", "max_dgram"),
                  step("app", "send_dgram", rel=0, salt=salt + 1), step("app", "send_dgram", rel=1, salt=salt + 2),
                  step("app2", "recv_dgram", ms=500)]
        add(role, "wt", steps, {"family": "wt-wt"})
    return out


# ----------------------------------------------------------------------------- C06

C06_CODES = [0, 63, 64, 16383, 16384, (1 << 30) - 1, 1 << 30, (1 << 62) - 1]


def c06(tier, seed, scripts):
    """scripts: operation histories printed by TLC (StreamLifeGen): lists of
    {side, op, code, n}."""
    rng = random.Random(seed * 7919 + 6)
    out = []
    layouts = [("client", "uni", "fwd"), ("server", "uni", "fwd"), ("client", "bi", "fwd"),
               ("server", "bi", "fwd"), ("client", "bi", "ret"), ("server", "bi", "ret")]
    for n, ops in enumerate(scripts):
        role, kind, direction = layouts[n % len(layouts)]
        if direction == "fwd":
            sside, rside = "app", "app2"
        else:
            sside, rside = "app2", "app"
        salt = n % 190
        steps = [step("app", "open_" + kind, tag="s"),
                 step("app2", "accept_" + kind, tag="s", ms=5000),
                 sleep(20)]
        k = 0
        for o in ops:
            who = sside if o["side"] == "S" else rside
            code = C06_CODES[(n + k) % len(C06_CODES)]
            k += 1
            if o["op"] == "write":
                steps.append(step(who, "write", tag="s", len=o["n"], salt=salt, ms=3000))
            elif o["op"] == "finish":
                steps.append(step(who, "finish", tag="s", ms=3000))
            elif o["op"] == "reset":
                steps.append(step(who, "reset", tag="s", code=v62(code)))
            elif o["op"] == "stopped":
                steps.append(step(who, "stopped", tag="s", ms=300))
            elif o["op"] == "read":
                steps.append(step(who, "read", tag="s", buf=2, salt=salt, ms=300))
            elif o["op"] == "stop":
                steps.append(step(who, "stop", tag="s", code=v62(code)))
            steps.append(sleep(40))
        out.append({"scn": "C06-%05d" % n, "role": role, "peer": "wt",
                    "meta": {"prop": "C06", "sside": sside, "rside": rside, "stag": "s", "rtag": "s",
                             "nops": len(ops), "kind": kind, "dir": direction,
                             "ops": [o["op"] for o in ops]},
                    "steps": steps})
    return out
