"""Per-property decision procedures. Each returns (exit_code)."""
import json
import os
import time

import vlib
from vlib import log

ASSUME_COMMON = [
    "TLC 1.8 and the CommunityModules JSON reader are trusted",
    "the harness projection functions only copy what the implementation returned",
    "reference modules (spec/Wire.tla, Qpack.tla, Typestate.tla, Admission.tla) encode my reading of RFC 9000/9114/9204/9297/7541 and draft-ietf-webtrans-http3",
]


def _corrupt_used(e):
    if isinstance(e.get("used"), int) and e.get("res") == "ok":
        e = dict(e)
        e["used"] = e["used"] + 1
        return e
    return None


def _corrupt_out_used(e):
    if e.get("ev") == "ts" and e.get("out") and e["out"][0].get("res") == "ok":
        e = json.loads(json.dumps(e))
        e["out"][0]["used"] += 1
        return e
    return None


def _corrupt_size(e):
    if isinstance(e.get("size"), int):
        e = dict(e)
        e["size"] += 1
        return e
    if e.get("ev") == "ids":
        e = dict(e)
        e["bidi"] = not e["bidi"]
        return e
    if e.get("ev") == "status" and e.get("res") == "err":
        e = dict(e)
        e["res"] = "ok"
        e["code"] = 42
        e["success"] = False
        return e
    return None


def binding_selftest(trace, name, corrupt, want=40, skip=()):
    """Demonstrates the binding: corrupt one logged field in `want` lines THAT WERE ACCEPTED (`skip`:
    the line numbers the real validation rejected - corrupting a wrong line may make it right) and
    require the trace spec to reject exactly those lines. Failure is a tool error."""
    wd = vlib.workdir("self-" + name)
    skip = set(skip)
    try:
        path = os.path.join(wd, "corrupt.ndjson")
        n = 0
        with open(trace) as f, open(path, "w") as g:
            for ln, line in enumerate(f, 1):
                if n >= want:
                    break
                if ln in skip:
                    continue
                c = corrupt(json.loads(line))
                if c is not None:
                    g.write(json.dumps(c) + "\n")
                    n += 1
        if n == 0:
            if skip:
                return 0
            raise vlib.ToolError("binding self-test: nothing to corrupt in %s" % name)
        total, mism, _ = vlib.tlc_validate(path, "self-" + name, parallel=1)
        if len(mism) != n:
            raise vlib.ToolError("binding self-test failed for %s: corrupted %d lines, %d rejected"
                                 % (name, n, len(mism)))
        return n
    finally:
        vlib.cleanup(wd)


def codec_check(pid, tier, suites, mc_cfgs, level_note, case_of, corrupt, profiles=("debug",),
                extra_cov=None, defer=False):
    """Generic sans-IO procedure: model-check the reference laws, run the harness suites
    against the real code (per build profile), validate every event with TLC."""
    t0 = time.time()
    verdict = vlib.Verdict(pid)
    cov = {"states": 0, "transitions": 0, "traces_validated_against_impl": 0, "samples": [],
           "events_by_kind": {}, "model_checking": [], "harness_profiles": list(profiles),
           "repo_head": vlib.repo_head(), "exhaustive": False}
    for spec, cfg in mc_cfgs:
        r = vlib.tlc_mc(spec, cfg, "%s-%s" % (pid, cfg), workers=4)
        cov["model_checking"].append({"spec": spec, "cfg": cfg, "ok": r["ok"],
                                      "generated": r["generated"], "distinct": r["distinct"],
                                      "wall_s": r["wall_s"]})
        cov["states"] += r["distinct"]
        cov["transitions"] += r["generated"]
        if not r["ok"]:
            raise vlib.ToolError("reference model %s/%s violated its own laws" % (spec, cfg))
    wd = vlib.workdir(pid)
    try:
        distinct_total = 0
        selftested = 0
        for profile in profiles:
            binary = vlib.build_harness(profile)
            for suite in suites:
                trace = os.path.join(wd, "%s-%s.ndjson" % (suite, profile))
                try:
                    vlib.run_harness(binary, [suite, "--out", trace, "--tier", tier,
                                              "--seed", str(vlib.seed())], timeout=600)
                except vlib.HarnessCrash as crash:
                    # the code under test killed or wedged the process: that is data, not a tool error
                    verdict.reject({"ev": crash.label, "crash": True, "profile": profile},
                                   {"suite": suite, "profile": profile, "how": crash.how,
                                    "call": crash.label, "input_hex": crash.input_hex})
                    continue
                total, mism, states = vlib.tlc_validate(trace, "%s-%s-%s" % (pid, suite, profile))
                cov["traces_validated_against_impl"] += total
                cov["states"] += states
                cov["transitions"] += total
                counts, distinct = vlib.count_events(trace)
                distinct_total += distinct
                for k, v in counts.items():
                    cov["events_by_kind"][k] = cov["events_by_kind"].get(k, 0) + v
                if len(cov["samples"]) < 6:
                    cov["samples"].extend(vlib.sample_lines(trace, 3))
                bad = vlib.read_lines(trace, mism[:2000])
                for ln in mism[:2000]:
                    e = bad[ln]
                    verdict.reject(case_of(e, profile), {"suite": suite, "profile": profile,
                                                         "line": ln, "event": e})
                if len(mism) > 2000:
                    log("(%d further mismatches not individually reported)" % (len(mism) - 2000))
                if selftested == 0:
                    try:
                        selftested = binding_selftest(trace, pid, corrupt, skip=mism)
                    except vlib.ToolError:
                        if not verdict.violations:
                            raise       # (a violation already found is never hidden behind a tool error)
        cov["distinct_events"] = distinct_total
        cov["binding_selftest_lines_rejected"] = selftested
        if extra_cov:
            cov.update(extra_cov)
        if defer:
            return verdict, cov, level_note
        rc = verdict.finish()
        vlib.write_evidence(pid, tier, "model_checking", cov,
                            ASSUME_COMMON + level_note, time.time() - t0, len(verdict.violations))
        return rc
    finally:
        vlib.cleanup(wd)


def _case_basic(e, profile):
    c = {"ev": e.get("ev"), "api": e.get("api"), "res": e.get("res"), "profile": profile}
    if e.get("panic"):
        c["panic"] = True
    return c


def c11(tier):
    mc = [("WireMC.tla", "WireMC_%s.cfg" % tier)]
    return codec_check(
        "C11", tier, ["dec"], mc,
        ["inputs: exhaustive up to length 1 (2 in thorough), class representatives to length 3/4, "
         "every truncation and single-byte mutation of a corpus of valid encodings, adversarial "
         "length/continuation shapes; allocation bound 8*len+8192 measured by a counting allocator",
         "debug build has overflow checks on, release build has them off"],
        _case_basic, _corrupt_used, profiles=("debug", "release"))


def c14(tier):
    mc = [("WireMC.tla", "WireMC_%s.cfg" % tier)]
    extra = None
    if tier == "thorough":
        # the value laws behind "unique shortest form / decodes to itself" for ALL 2^62 values
        extra = {"symbolic": [vlib.apalache_laws("WireInt.tla", "VarintLaws", "C14")]}
    return codec_check(
        "C14", tier, ["enc"], mc,
        ["values: all varint boundaries + seeded random; frame payload lengths 0..140 + boundaries "
         "(0..4096 all in thorough); all 64 subsets of the settings builder; header maps by class + random; "
         "every encoded frame and stream header is read back through the slice reader and the asynchronous reader (same value, same byte count)",
         "the exhaustive sweep below 2^30 is not run: boundary + random samples of the code are judged instead; "
         "thorough: Apalache proves the reference's varint laws for all 2^62 values (spec-level, not code-level)"],
        _case_basic, _corrupt_size, extra_cov=extra)


def c17(tier):
    mc = [("WireMC.tla", "WireMC_%s.cfg" % tier)]
    return codec_check(
        "C17", tier, ["ids"], mc,
        ["ids: four low-bit classes x boundary magnitudes, 0..2047, seeded random; quarter ids via the datagram reader",
         "driver-level foreign-session scenarios are checked by the e2e part when present"],
        _case_basic, _corrupt_size)


def c18(tier):
    mc = [("WireMC.tla", "WireMC_%s.cfg" % tier)]
    return codec_check(
        "C18", tier, ["adm"], mc,
        ["header maps: 3^5 pseudo-header combinations x extras; status strings: every integer 0..65535 "
         "plus signs/spaces/leading zeros/non-digits; URLs from the identity sub-grammar of WHATWG normalisation"],
        _case_basic, _corrupt_size)


def c12(tier):
    mc = [("WireMC.tla", "WireMC_%s.cfg" % tier)]
    return codec_check(
        "C12", tier, ["ts"], mc,
        ["frame histories over a 20-token alphabet to depth 3 (4 in thorough, sampled at the deepest level) on the four reading typestates, sync/buffered/async"],
        _case_basic, _corrupt_out_used)


def c13(tier):
    mc = [("WireMC.tla", "WireMC_%s.cfg" % tier)]
    return codec_check(
        "C13", tier, ["ts"], mc,
        ["unknown types of every varint length and GREASE values inserted at every position of depth-3 histories; payloads that look like frames"],
        _case_basic, _corrupt_out_used)


def c15(tier):
    mc = [("WireMC.tla", "WireMC_%s.cfg" % tier), ("AsyncReadMC.tla", "AsyncRead_%s.cfg" % tier)]
    return codec_check(
        "C15", tier, ["dec", "ts"], mc,
        ["every API (one-shot slice, BufferReader, read_from_buffer, async with scripted chunking and Pending patterns) is judged against the same reference outcome and byte count",
         "AsyncRead.tla: the poll-level model of GetVarint/GetBuffer/Frame::read_async is checked against Wire!FrameAt for every input over a class alphabet, every chunking up to MaxChunk and every end condition (agreement, no over-read, no spin, termination)"],
        _case_basic, _corrupt_used)


PROPS = {"C11": c11, "C12": c12, "C13": c13, "C14": c14, "C15": c15, "C17": c17, "C18": c18}


# =========================================================================== e2e

def regroup(raw, out):
    """Events of concurrently executed scenarios are interleaved in the log: group them
    per scenario, each in its own (global sequence number) order."""
    groups = {}
    order = []
    with open(raw) as f:
        for line in f:
            e = json.loads(line)
            k = e.get("scn", "")
            if k not in groups:
                groups[k] = []
                order.append(k)
            groups[k].append((e.get("seq", 0), line))
    with open(out, "w") as g:
        for k in order:
            for _, line in sorted(groups[k], key=lambda x: x[0]):
                g.write(line)


def mechanism_binding(pid, mech_path, selftest=False, chunk_events=40000):
    """Model binding of Driver.tla: the hook events recorded during the scenarios, one segment per
    connection, must be steps of the model (DriverTrace.tla).  A rejected segment is MODEL DRIFT: the
    model no longer describes the mechanism.  That is reported and recorded but is not a property
    violation (a mechanism may change while the listed properties still hold - those are judged at
    the interface by the property's own monitor)."""
    import mech as mechlib
    segs = mechlib.segments(mech_path)
    # (a connection that burns thousands of stream ids to reach a large session id adds nothing per event
    # but makes the model's sets large: such segments are counted, not replayed)
    def pulls(seg):
        return sum(1 for e in seg if e.get("ev") == "w_pull")
    long_segs = [x for x in segs if pulls(x) > 1000]
    segs = [x for x in segs if pulls(x) <= 1000]
    res = {"spec": "DriverTrace.tla", "connections": len(segs), "events": sum(len(x) for x in segs),
           "accepted_connections": 0, "states": 0, "drift": [], "not_replayed_long_connections": len(long_segs)}
    wd = vlib.workdir("mech-" + pid)
    try:
        todo = list(segs)
        k = 0
        while todo:
            chunk, n = [], 0
            while todo and (not chunk or n + len(todo[0]) <= chunk_events):
                n += len(todo[0])
                chunk.append(todo.pop(0))
            k += 1
            path = os.path.join(wd, "m%d.ndjson" % k)
            mechlib.write(chunk, path)
            furthest, states = vlib.tlc_mech(path, "%s-m%d" % (pid, k))
            res["states"] += states
            if furthest > n:
                res["accepted_connections"] += len(chunk)
                continue
            # the segment holding the first event that is not a step of the model
            upto = 0
            for i, seg in enumerate(chunk):
                if furthest <= upto + len(seg):
                    ev = seg[furthest - upto - 1]
                    res["accepted_connections"] += i
                    res["drift"].append({"connection": seg[0].get("c"), "event_index": furthest - upto, "event": ev,
                                         "before": seg[max(0, furthest - upto - 6):furthest - upto - 1]})
                    log("MODEL-DRIFT check=%s Driver.tla does not allow event %d of connection %s: %s"
                        % (pid, furthest - upto, seg[0].get("c"), json.dumps(ev)))
                    todo = chunk[i + 1:] + todo
                    break
                upto += len(seg)
        if selftest and segs:
            # binding self-test: a task that ends twice / a queue seen closed before the result is set
            bad = None
            for seg in segs:
                idx = [i for i, e in enumerate(seg) if e["ev"] == "t_end"]
                if idx:
                    bad = seg[:idx[0] + 1] + [seg[idx[0]]] + seg[idx[0] + 1:]
                    break
            if bad:
                path = os.path.join(wd, "self.ndjson")
                mechlib.write([bad], path)
                furthest, _ = vlib.tlc_mech(path, "%s-mself" % pid)
                if furthest > len(bad):
                    raise vlib.ToolError("mechanism binding self-test failed: a corrupted segment was accepted")
                res["selftest_rejected_at"] = furthest
        log("[mech] %s: %d connections, %d events, %d accepted, %d drifting"
            % (pid, res["connections"], res["events"], res["accepted_connections"], len(res["drift"])))
        res["drift"] = res["drift"][:10]
        return res
    finally:
        vlib.cleanup(wd)


def e2e_check(pid, tier, scenarios, trace_spec, corrupt, note, mc_cfgs=(), threads=2,
              case_of=None, extra_cov=None, runs=1, par=1, mc_results=(), defer=False, mech=False):
    """End-to-end procedure: model-check the property's model, run the scenarios against
    the real endpoints, validate every scenario history with the property's trace spec."""
    import scen  # noqa: F401
    t0 = time.time()
    verdict = vlib.Verdict(pid)
    cov = {"states": 0, "transitions": 0, "traces_validated_against_impl": 0, "samples": [],
           "model_checking": [], "scenarios": 0, "events": 0, "repo_head": vlib.repo_head(),
           "exhaustive": False}
    for spec, cfg in mc_cfgs:
        r = vlib.tlc_mc(spec, cfg, "%s-%s" % (pid, cfg), workers=4)
        cov["model_checking"].append({"spec": spec, "cfg": cfg, "ok": r["ok"],
                                      "generated": r["generated"], "distinct": r["distinct"],
                                      "wall_s": r["wall_s"]})
        cov["states"] += r["distinct"]
        cov["transitions"] += r["generated"]
        if not r["ok"]:
            raise vlib.ToolError("model %s/%s violated" % (spec, cfg))
    for r in mc_results:
        cov["model_checking"].append(r)
        cov["states"] += r["distinct"]
        cov["transitions"] += r["generated"]
    wd = vlib.workdir(pid)
    try:
        binary = vlib.build_harness("debug")
        scn_path = os.path.join(wd, "scenarios.ndjson")
        with open(scn_path, "w") as f:
            for s in scenarios:
                f.write(json.dumps(s) + "\n")
        by_name = {s["scn"]: s for s in scenarios}
        for run in range(runs):
            trace = os.path.join(wd, "trace%d.ndjson" % run)
            raw = os.path.join(wd, "raw%d.ndjson" % run)
            th = threads if run == 0 else 1
            try:
                vlib.run_harness(binary, ["e2e", "--scenarios", scn_path, "--out", raw,
                                          "--threads", str(th), "--par", str(par)], timeout=3000)
            except vlib.ToolError as err:
                inflight = scenarios_in_flight(raw)
                if not inflight:
                    raise
                # the process died / hung while these scenarios were running against the code under test
                for name in inflight:
                    verdict.reject({"crash": True, "scn_meta": json.dumps(by_name.get(name, {}).get("meta", {}), sort_keys=True)},
                                   {"how": str(err), "scenario": by_name.get(name), "history": scenario_history(raw, name)})
                break
            regroup(raw, trace)
            with open(trace) as f:
                for line in f:
                    if '"harness_error"' in line:
                        raise vlib.ToolError("harness could not set a scenario up: " + line.strip()[:300])
                    if '"badop"' in line or '"badstep"' in line:
                        # a step the interpreter does not know is a defect of the scenario generator, not of the code
                        raise vlib.ToolError("scenario uses an unknown step: " + line.strip()[:300])
            total, mism, states = vlib.tlc_validate(trace, "%s-e2e%d" % (pid, run), spec=trace_spec,
                                                    cfg="E2E.cfg", chunk_lines=10**9, parallel=1)
            cov["traces_validated_against_impl"] += len(scenarios)
            cov["scenarios"] += len(scenarios)
            cov["events"] += total
            cov["states"] += states
            cov["transitions"] += total
            starts = vlib.read_lines(trace, mism)
            for ln in mism:
                name = starts[ln].get("scn")
                hist = scenario_history(trace, name)
                case = {"scn_meta": json.dumps(by_name.get(name, {}).get("meta", {}), sort_keys=True)}
                if case_of:
                    case.update(case_of(by_name.get(name, {}), hist))
                verdict.reject(case, {"scenario": by_name.get(name), "history": hist,
                                      "runtime_threads": th})
            if run == 0:
                cov["samples"] = [vlib._shorten(scenarios[0], 12)] + vlib.sample_lines(trace, 3)
                try:
                    n = e2e_selftest(trace, pid, trace_spec, corrupt,
                                     skip={starts[ln].get("scn") for ln in mism})
                except vlib.ToolError:
                    if not verdict.violations:
                        raise           # (a violation already found is never hidden behind a tool error)
                    n = 0
                cov["binding_selftest_scenarios_rejected"] = n
            if mech and os.path.exists(raw + ".mech"):
                try:
                    m = mechanism_binding(pid, raw + ".mech", selftest=(run == 0))
                except vlib.ToolError:
                    if not verdict.violations:
                        raise
                    continue
                except Exception as err:      # the binding is supplementary: it never decides a check
                    log("MODEL-DRIFT check=%s mechanism trace could not be projected: %s" % (pid, err))
                    cov["mechanism_trace"] = {"error": str(err)}
                    continue
                prev = cov.get("mechanism_trace")
                if prev:
                    for k in ("connections", "events", "accepted_connections", "states"):
                        m[k] += prev[k]
                    m["drift"] = prev["drift"] + m["drift"]
                cov["mechanism_trace"] = m
                cov["states"] += m["states"]
        if extra_cov:
            cov.update(extra_cov)
        if defer:
            return verdict, cov, note
        rc = verdict.finish()
        vlib.write_evidence(pid, tier, "model_checking", cov, ASSUME_COMMON + note,
                            time.time() - t0, len(verdict.violations))
        return rc
    finally:
        vlib.cleanup(wd)


def scenarios_in_flight(raw):
    """Scenarios that were started (reset) but not ended in a possibly truncated trace."""
    started, ended = [], set()
    try:
        with open(raw) as f:
            for line in f:
                try:
                    e = json.loads(line)
                except ValueError:
                    continue
                if e.get("ev") == "reset":
                    started.append(e.get("scn"))
                elif e.get("ev") == "end":
                    ended.add(e.get("scn"))
    except OSError:
        return []
    return [s for s in started if s not in ended]


def scenario_history(trace, name):
    out = []
    with open(trace) as f:
        for line in f:
            if ('"scn":"%s"' % name) in line:
                out.append(vlib._shorten(json.loads(line), 80))
    return out


def e2e_selftest(trace, pid, trace_spec, corrupt, want=6, skip=()):
    """Corrupt one observed field in up to `want` scenarios that were accepted (`skip`: names of the
    scenarios the real validation rejected); each must be rejected."""
    wd = vlib.workdir("self-" + pid)
    try:
        path = os.path.join(wd, "corrupt.ndjson")
        scen_lines, cur, n = [], [], 0
        with open(trace) as f, open(path, "w") as g:
            for line in f:
                e = json.loads(line)
                cur.append(e)
                if e.get("ev") == "end":
                    if n < want and e.get("scn") not in skip:
                        c = corrupt(cur)
                        if c is not None:
                            for x in c:
                                g.write(json.dumps(x) + "\n")
                            n += 1
                    cur = []
        if n == 0:
            if skip:
                return 0
            raise vlib.ToolError("binding self-test: nothing to corrupt for %s" % pid)
        total, mism, _ = vlib.tlc_validate(path, "self-" + pid, spec=trace_spec, cfg="E2E.cfg",
                                           chunk_lines=10**9, parallel=1)
        if len(mism) != n:
            raise vlib.ToolError("binding self-test failed for %s: corrupted %d scenarios, %d rejected"
                                 % (pid, n, len(mism)))
        return n
    finally:
        vlib.cleanup(wd)


def _corrupt_c04(events):
    ev = json.loads(json.dumps(events))
    for e in ev:
        if e.get("ev") == "op_done" and e.get("res") == "err" and isinstance(e.get("err"), dict):
            if e["err"].get("k") == "ApplicationClosed":
                e["err"]["code"] = [e["err"]["code"][0], e["err"]["code"][1] + 1]
                return ev
            if e["err"].get("k") in ("LocalH3Error", "LocallyClosed") and e.get("op") in ("accept_uni", "accept_bi", "recv_dgram"):
                e["err"] = {"k": "ApplicationClosed", "code": [0, 0], "reason": []}
                return ev
    return None


def c04(tier):
    import scen
    return e2e_check(
        "C04", tier, scen.c04(tier, vlib.seed()), "C04Trace.tla", _corrupt_c04,
        ["termination styles x codes x reasons x life-cycle points x roles against a raw QUIC peer; "
         "expected cause computed by Session!SessionOutcome from the bytes the peer actually wrote",
         "a capsule is carried in one DATA frame; steps are separated by 30-200 ms barriers"],
        mc_cfgs=[("WireMC.tla", "WireMC_quick.cfg")], par=6, threads=4, mech=True)


PROPS["C04"] = c04


def _corrupt_c01(events):
    ev = json.loads(json.dumps(events))
    for e in ev:
        if e.get("ev") == "op_done" and e.get("op") == "read" and e.get("res") == "done" and e.get("len", 0) > 0:
            if "bytes" in e:
                e["bytes"][0] = (e["bytes"][0] + 1) % 256
            else:
                e["head"][0] = (e["head"][0] + 1) % 256
            return ev
    return None


def c01(tier):
    import scen
    return e2e_check(
        "C01", tier, scen.c01(tier, vlib.seed()), "C01Trace.tla", _corrupt_c01,
        ["payload lengths 0..3 flow-control windows, write chunkings, read buffer sizes, 4 stream roles, "
         "2..40 concurrent streams between two wtransport endpoints; raw peer writing preambles (shortest "
         "and non-shortest varints) cut at every position with 25 ms gaps; streams the endpoint opens recorded byte for byte by the raw peer",
         "session id is 0 on a fresh connection (larger ids covered at the sans-IO layer)"],
        mc_cfgs=[("StreamPipeMC.tla", "StreamPipe_%s.cfg" % tier)], runs=2 if tier == "thorough" else 1,
        par=4, threads=4, mech=True)


PROPS["C01"] = c01


def _corrupt_c02(events):
    ev = json.loads(json.dumps(events))
    for e in ev:
        if e.get("ev") == "server_saw":
            e["path"] = e["path"] + [47]
            return ev
    return None


def c02(tier):
    import scen
    return e2e_check(
        "C02", tier, scen.c02(tier, vlib.seed()), "C02Trace.tla", _corrupt_c02,
        ["URLs from the identity sub-grammar of WHATWG normalisation (IPv4, IPv6 literal, domains through a scripted "
         "DNS resolver; explicit, default-443 and absent ports; paths and queries), header sets by QPACK class "
         "(static name+value, name-only, literal; Huffman-shrinking or not; lengths across prefix boundaries), "
         "5 server decisions, extra response fields; two real wtransport endpoints on loopback"],
        mc_cfgs=[("WireMC.tla", "WireMC_quick.cfg")], par=8, threads=4)


PROPS["C02"] = c02


def _corrupt_c03(events):
    ev = json.loads(json.dumps(events))
    for e in ev:
        if e.get("ev") == "op_done" and e.get("op") == "recv_dgram" and e.get("res") == "ok" and e.get("len", 0) > 0:
            e["bytes"][0] = (e["bytes"][0] + 1) % 256
            return ev
        if e.get("ev") == "op_done" and e.get("op") == "max_dgram" and e.get("res") == "ok" and e.get("max", -1) >= 0:
            e["max"] += 1
            return ev
    return None


def c03(tier):
    import scen
    return e2e_check(
        "C03", tier, scen.c03(tier, vlib.seed()), "C03Trace.tla", _corrupt_c03,
        ["peer datagram frame limits 0..65535 (set on a raw QUIC peer), payload lengths 0,1,2,50 and max-1..max+8 "
         "relative to the maximum measured at run time, live/foreign/non-shortest quarter ids from the peer, "
         "both directions interleaved between two wtransport endpoints",
         "loss is allowed: a receive that times out is not judged; the maximum is read immediately before and after each send"],
        mc_cfgs=[("DatagramMC.tla", "DatagramMC.cfg")], mech=True)


PROPS["C03"] = c03


def tlc_scripts(spec, cfg, name):
    """Runs a generator spec; returns (scripts, mc_result). Scripts are the distinct JSON
    values printed as <<"SCN", "...">>; the run also model-checks the spec's invariants."""
    r = vlib.tlc_mc(spec, cfg, name, workers=1)
    if not r["ok"]:
        raise vlib.ToolError("generator model %s/%s violated its invariants" % (spec, cfg))
    seen, scripts = set(), []
    for t in vlib.tlc_prints(r["out"], "SCN"):
        t = t.strip()
        if t.startswith('"') and t.endswith('"'):
            t = json.loads(t)
        if t not in seen:
            seen.add(t)
            scripts.append(json.loads(t))
    res = {"spec": spec, "cfg": cfg, "ok": True, "generated": r["generated"],
           "distinct": r["distinct"], "wall_s": r["wall_s"], "scripts": len(scripts)}
    return scripts, res


def _corrupt_c06(events):
    ev = json.loads(json.dumps(events))
    for e in ev:
        if e.get("ev") == "op_done" and e.get("op") == "read" and isinstance(e.get("end"), dict):
            if e["end"].get("k") == "err" and e["end"]["err"].get("k") == "Reset":
                e["end"]["err"]["code"] = [e["end"]["err"]["code"][0], e["end"]["err"]["code"][1] ^ 1]
                return ev
            if e["end"].get("k") == "fin":
                e["end"] = {"k": "timeout"}
                return ev
    return None


def c06(tier):
    import scen
    scripts, mcres = tlc_scripts("StreamLifeMC.tla", "StreamLifeGen_%s.cfg" % tier, "C06-gen")
    return e2e_check(
        "C06", tier, scen.c06(tier, vlib.seed(), scripts), "C06Trace.tla", _corrupt_c06,
        ["every operation history of depth 3 (4 in thorough) over {write, finish, reset(c), stopped, read-to-end, stop(c)} "
         "enumerated by TLC from StreamLifeGen and replayed on two real wtransport endpoints with 40 ms barriers; "
         "codes cycle through every varint-length boundary up to 2^62-1; 4 stream roles and both directions of bidirectional streams; "
         "fixed families: abandoned finish, connection lost under an open stream, BiStream as the sender, and the link between the endpoints "
         "cut by a UDP relay (StreamLife cut/uncut: no finish, first or repeated, may succeed while written bytes cannot be acknowledged; "
         "afterwards a reset still reaches the reader / a finish succeeds and the reader sees every byte)",
         "packet loss is injected only as a total cut of the link; results of races are not explored: every step is settled before the next one"],
        mc_results=[mcres], par=16, threads=4, extra_cov={"exhaustive": True})


PROPS["C06"] = c06


def combine(pid, tier, parts):
    """Merges deferred (verdict, coverage, notes) parts into one verdict + evidence file."""
    t0 = combine.t0
    verdict = vlib.Verdict(pid)
    cov = {"states": 0, "transitions": 0, "traces_validated_against_impl": 0, "samples": [],
           "model_checking": [], "parts": [], "repo_head": vlib.repo_head()}
    notes = []
    for name, (v, c, n) in parts:
        verdict.violations += v.violations
        verdict.known += v.known
        for k in ("states", "transitions", "traces_validated_against_impl"):
            cov[k] += c.get(k, 0)
        cov["samples"] += c.get("samples", [])[:3]
        cov["model_checking"] += c.get("model_checking", [])
        cov["parts"].append({"part": name, **{k: v2 for k, v2 in c.items()
                                               if k not in ("samples", "model_checking")}})
        notes += n
    rc = verdict.finish()
    vlib.write_evidence(pid, tier, "model_checking", cov, ASSUME_COMMON + notes,
                        time.time() - t0, len(verdict.violations))
    return rc


combine.t0 = time.time()


def _corrupt_c12(events):
    ev = json.loads(json.dumps(events))
    for e in ev:
        if e.get("ev") == "peer_closed" and e["why"].get("k") == "ApplicationClosed":
            e["why"]["code"] = [0, e["why"]["code"][1] + 1000]
            return ev
    for e in ev:
        if e.get("ev") == "op_done" and e.get("tag") == "probe" and e.get("res") == "ok":
            e["res"] = "timeout"
            return ev
    return None


def _driver_rules(pid, tier, select, note):
    import scen
    scns = [s for s in scen.c12(tier, vlib.seed()) if select(s)]
    for s in scns:
        s["scn"] = s["scn"].replace("C12", pid)
    return e2e_check(pid, tier, scns, "C12Trace.tla", _corrupt_c12, note,
                     par=8, threads=4, defer=True, mech=(pid == "C12"))


def _names(s):
    return s["meta"]["names"]


def c12(tier):
    combine.t0 = time.time()
    a = codec_check("C12", tier, ["ts"], [("WireMC.tla", "WireMC_%s.cfg" % tier)],
                    ["frame histories over a 20-token alphabet to depth 3 (4 in thorough, sampled at the deepest level) "
                     "on the four reading typestates, sync/buffered/async"],
                    _case_basic, _corrupt_out_used, defer=True)
    b = _driver_rules("C12", tier, lambda s: True,
                      ["connection-level histories against the running driver in both roles with a raw QUIC peer: "
                       "every single stream event of the catalogue (critical-stream duplicates/closures, frames on the control / "
                       "request / session stream, truncations, invalid ids, malformed requests), selected pairs, sampled triples in thorough; "
                       "outcome observed from outside (CONNECTION_CLOSE code, STOP_SENDING code, delivery, liveness probe) and judged by H3Rules.tla"])
    return combine("C12", tier, [("typestates", a), ("driver", b)])


def c13(tier):
    combine.t0 = time.time()
    a = codec_check("C13", tier, ["ts"], [("WireMC.tla", "WireMC_%s.cfg" % tier)],
                    ["unknown types of every varint length and GREASE values inserted at every position of depth-3 histories; payloads that look like frames"],
                    _case_basic, _corrupt_out_used, defer=True)
    noise = ("grease", "unknown", "trailers", "capsule")
    b = _driver_rules("C13", tier, lambda s: any(any(w in nm for w in noise) for nm in _names(s)),
                      ["driver-level: GREASE/unknown frames on the control, request and session streams (payloads that look like frames), "
                       "GREASE/unknown unidirectional stream types with arbitrary content, unknown capsules - alone and before healthy or offending streams"])
    return combine("C13", tier, [("typestates", a), ("driver", b)])


def c17(tier):
    combine.t0 = time.time()
    extra = None
    if tier == "thorough":
        # stream-id classification / quarter-id arithmetic / datagram header size for ALL 62-bit ids
        extra = {"symbolic": [vlib.apalache_laws("WireInt.tla", "IdLaws", "C17"),
                              vlib.apalache_laws("WireIntDg.tla", "Laws", "C17dg")]}
    a = codec_check("C17", tier, ["ids"], [("WireMC.tla", "WireMC_%s.cfg" % tier)],
                    ["ids: four low-bit classes x boundary magnitudes, 0..2047, seeded random; quarter ids via the datagram reader; "
                     "thorough: Apalache proves the reference's id laws for all 62-bit values (spec-level)"],
                    _case_basic, _corrupt_size, defer=True, extra_cov=extra)
    b = _driver_rules("C17", tier, lambda s: any(nm.startswith("wt_") for nm in _names(s)),
                      ["driver-level: WebTransport uni/bidi streams naming the live session, a valid unused session, a huge one and "
                       "non-session stream ids, alone and interleaved with live traffic; foreign datagrams are covered by C03"])
    # datagrams of other sessions (every quarter id class, incl. ones that are no session id at all) are
    # dropped and leave the live session undisturbed
    import scen
    dg = [x for x in scen.c03(tier, vlib.seed()) if x["meta"].get("family") in ("peer-to-app", "big-sid")]
    c = e2e_check("C17", tier, dg, "C03Trace.tla", _corrupt_c03,
                  ["foreign datagrams: quarter ids 1, 64, 2^60-1, non-shortest encodings and session 0 on a session with another id, "
                   "interleaved with the live session's (judged by C03Trace)"], defer=True)
    return combine("C17", tier, [("ids", a), ("driver", b), ("datagrams", c)])


def c18(tier):
    combine.t0 = time.time()
    a = codec_check("C18", tier, ["adm"], [("WireMC.tla", "WireMC_%s.cfg" % tier)],
                    ["header maps: 3^5 pseudo-header combinations x extras; status strings: every integer 0..65535 plus signs/spaces/"
                     "leading zeros/non-digits; URLs from the identity sub-grammar of WHATWG normalisation"],
                    _case_basic, _corrupt_size, defer=True)
    reqs = ("get_request", "no_protocol", "wrong_protocol", "http_scheme", "no_authority", "no_path", "no_method",
            "bad_qpack", "grease_unknown_then_get", "data_first", "settings_first")
    b = _driver_rules("C18", tier, lambda s: any(any(nm.startswith(r) for r in reqs) for nm in _names(s)),
                      ["driver-level: malformed / non-CONNECT requests from a raw client must be refused on their own stream with the connection still usable"])
    return combine("C18", tier, [("admission", a), ("driver", b)])


PROPS.update({"C12": c12, "C13": c13, "C17": c17, "C18": c18})


def _corrupt_c16(events):
    ev = json.loads(json.dumps(events))
    for e in ev:
        if e.get("ev") == "rx_stream" and e.get("dir") == "uni" and e.get("bytes", [9])[:1] == [0] and len(e["bytes"]) > 6:
            e["bytes"][3] = (e["bytes"][3] + 1) % 64      # first setting id of the control stream
            return ev
    return None


def c16(tier):
    import scen
    combine.t0 = time.time()
    # what the sans-IO encoders produce (every writer path incl. partial writes) decodes under the reference
    a = codec_check("C16", tier, ["enc"], [],
                    ["encoders: every frame / stream header / SETTINGS / field section / datagram writer incl. the asynchronous ones "
                     "under short writes, decoded by the reference (shared with C14)"],
                    _case_basic, _corrupt_size, defer=True)
    b = e2e_check(
        "C16", tier, scen.c16(tier, vlib.seed()), "C16Trace.tla", _corrupt_c16,
        ["a raw QUIC peer records verbatim every stream, datagram and close/stop code the endpoint emits: client role "
         "(request for URL/header classes), server role (five decisions with extra fields), WebTransport streams and datagrams "
         "(session ids 0, 64, 252, 256), and error paths of the C12 catalogue; judged with Wire/Qpack/Huffman reference decoders only"],
        mc_cfgs=[("WireMC.tla", "WireMC_quick.cfg")], par=8, threads=4, defer=True)
    return combine("C16", tier, [("encoders", a), ("wire", b)])


PROPS["C16"] = c16


def _corrupt_c05(events):
    ev = json.loads(json.dumps(events))
    for e in ev:
        if e.get("ev") == "op_done" and e.get("tag") in ("probe1", "probe2") and e.get("res") == "ok":
            e["res"] = "timeout"
            return ev
    return None


def _case_c05(scn, hist):
    t = scn.get("meta", {}).get("target")
    if t in ("settings", "grease_ctrl", "grease_session", "capsule"):
        return {"c05_class": "frame read inside the worker select loop"}
    return {"c05_class": "frame read by a dedicated task"}


def c05(tier):
    import scen
    # the mechanism model: a frame read owned by the struct ("persist", the code since b91be3c) or by a
    # task is never torn, for every segmentation and every placement of other loop events; a read owned
    # by the select! branch ("drop", the code before the fix: finding D6) is - both facts are asserted
    mc = []
    for cfg, expect_ok in (("SelectLoop_persist.cfg", True), ("SelectLoop_task.cfg", True), ("SelectLoop_drop.cfg", False)):
        r = vlib.tlc_mc("SelectLoopMC.tla", cfg, "C05-" + cfg, workers=2)
        if r["ok"] != expect_ok:
            raise vlib.ToolError("SelectLoop.tla %s: expected %s" % (cfg, "no error" if expect_ok else "a tearing counterexample"))
        mc.append({"spec": "SelectLoopMC.tla", "cfg": cfg, "ok": r["ok"], "expected_ok": expect_ok,
                   "generated": r["generated"], "distinct": r["distinct"], "wall_s": r["wall_s"]})
    extra = None
    if tier == "thorough":
        # the same model for every list of up to 4 frames of any length and every segment size, by an
        # inductive invariant (initiation, consecution) - and the drop discipline as the negative control
        extra = {"symbolic": [
            vlib.apalache_run("SelectLoopInd.tla", ["--cinit=CInit", "--init=Init", "--next=Next", "--inv=IndInv", "--length=0"], "C05-i0"),
            vlib.apalache_run("SelectLoopInd.tla", ["--cinit=CInit", "--init=IndInit", "--next=Next", "--inv=IndInv", "--length=1"], "C05-i1"),
            vlib.apalache_run("SelectLoopInd.tla", ["--cinit=CInitDrop", "--init=Init", "--next=Next", "--inv=NoTear", "--length=4"],
                              "C05-drop", expect_error=True)]}
    return e2e_check(
        "C05", tier, scen.c05(tier, vlib.seed()), "C05Trace.tla", _corrupt_c05,
        ["valid exchanges whose SETTINGS / GREASE / request or response HEADERS / session-stream GREASE / close capsule are cut "
         "at every position (quick: one seeded position per target x injected-event pair), with nothing, a datagram, a WebTransport "
         "uni or bidi stream, a QPACK stream byte or a frame on another critical stream injected between the pieces (25 ms gaps), "
         "both roles, multi-thread runtime (plus current-thread in thorough); each paired with its unsegmented twin",
         "timing: whether a tear manifests depends on the scheduler; a scenario that passes is not proof of absence "
         "(D6, the tear of frames read inside the worker's select loop, was found here and is fixed by b91be3c)"],
        mc_cfgs=[("WireMC.tla", "WireMC_quick.cfg")], mc_results=mc, par=4, threads=4, case_of=_case_c05,
        runs=2 if tier == "thorough" else 1, extra_cov=extra, mech=True)


PROPS["C05"] = c05


def _corrupt_c08(events):
    ev = json.loads(json.dumps(events))
    for i, e in enumerate(ev):
        if e.get("ev") == "accepted":
            dup = dict(e)
            ev.insert(i + 1, dup)          # the same stream delivered twice
            return ev
    return None


def c08(tier):
    import scen
    return e2e_check(
        "C08", tier, scen.c08(tier, vlib.seed()), "C08Trace.tla", _corrupt_c08,
        ["1..40 streams (300 in thorough), two thirds uni one third bidi, opened by a raw peer or a wtransport peer, accepted by "
         "1/2/4 concurrent tasks per kind with 0/3 ms pauses, with pending accepts dropped after 1 or 4 ms and reissued; each "
         "stream carries its own id; Driver.tla (accept path with permits, per-stream tasks, receiver mutex, cancellation) is "
         "model-checked for ExactlyOnce / PermitsSane",
         "streams reset by their sender before being accepted are not used (a reset may legitimately discard the preamble)"],
        mc_cfgs=[("DriverMC.tla", "Driver_safety_quick.cfg" if tier == "quick" else "Driver_safety.cfg")],
        par=4, threads=4, runs=2 if tier == "thorough" else 1, mech=True)


PROPS["C08"] = c08


def _corrupt_c07(events):
    ev = json.loads(json.dumps(events))
    for e in ev:
        if e.get("ev") == "op_done" and e.get("op") in ("accept_uni", "accept_bi") and e.get("res") == "ok" \
                and str(e.get("tag", "")).startswith("ah"):
            e["res"] = "timeout"
            return ev
    return None


def _case_c07(scn, hist):
    m = scn.get("meta", {})
    failed = [e for e in hist if e.get("ev") == "op_done" and e.get("op") in ("accept_uni", "accept_bi", "recv_dgram")
              and str(e.get("tag", "")).startswith(("ah", "")) and e.get("res") != "ok"
              and not str(e.get("tag", "")).startswith("x")]
    ops = {e.get("op") for e in failed}
    closed_ok = any(e.get("ev") == "peer_closed" and e.get("why", {}).get("k") == "ApplicationClosed" for e in hist)
    partial = m.get("pos") in ("partial1", "partial_sid")
    if partial and closed_ok and m.get("kind") == "uni" and m.get("k", 0) >= 4 and ops == {"accept_uni"}:
        return {"c07_pattern": "uni accepts blocked behind >=4 uni streams whose preamble is incomplete"}
    if partial and closed_ok and m.get("kind") == "bi" and m.get("k", 0) >= 1 and ops == {"accept_bi"}:
        return {"c07_pattern": "bidi accepts blocked behind >=1 bidi streams whose first frame is incomplete"}
    return {"c07_pattern": "other"}


def c07(tier):
    import scen
    combine.t0 = time.time()
    # the mechanism model: independence holds below the queue capacities and - as in the code -
    # fails at them (the two known findings); both facts are part of the evidence
    mc = []
    for cfg, expect_ok in (("Driver_live_ok.cfg", True), ("Driver_live_d7uni.cfg", False), ("Driver_live_d7bi.cfg", False)):
        if tier == "quick" and cfg == "Driver_live_ok.cfg":
            cfg = "Driver_live_okq.cfg"
        r = vlib.tlc_mc("DriverMC.tla", cfg, "C07-" + cfg, workers=8)
        if r["ok"] != expect_ok:
            raise vlib.ToolError("Driver.tla %s: expected %s" % (cfg, "no error" if expect_ok else "a liveness counterexample"))
        mc.append({"spec": "DriverMC.tla", "cfg": cfg, "ok": r["ok"], "expected_ok": expect_ok,
                   "generated": r["generated"], "distinct": r["distinct"], "wall_s": r["wall_s"]})
    return e2e_check(
        "C07", tier, scen.c07(tier, vlib.seed()), "C07Trace.tla", _corrupt_c07,
        ["k = 1..5 stalled peer streams of either kind at 4 stall positions (1 byte of the preamble, preamble cut inside the session id, "
         "complete preamble then silence, 200 kB unread), before or after healthy traffic; 1 / 4 / 5 / 9 unidirectional streams of reserved "
         "(GREASE) types left open after their type, silent or with a few bytes; healthy uni + bidi streams, datagrams and a "
         "clean close must get through (5 s bound); both roles; Driver.tla checked for the liveness property below the queue capacities "
         "and shown to fail at them (known findings D7)",
         "a stream on which no byte at all was written does not exist for the receiver (QUIC sends nothing): the 'no byte' position is covered by '1 byte'"],
        mc_results=mc, par=6, threads=4, case_of=_case_c07, mech=True)


PROPS["C07"] = c07


def _corrupt_c09(events):
    ev = json.loads(json.dumps(events))
    seen_mark = False
    for e in ev:
        if e.get("ev") == "mark":
            seen_mark = True
        if seen_mark and e.get("ev") == "op_done" and e.get("op") in ("accept_uni", "accept_bi", "recv_dgram") \
                and e.get("res") == "err":
            e["res"] = "timeout"
            del e["err"]
            return ev
    for e in ev:
        if e.get("ev") == "server_decided" and e.get("res") == "err":
            e["err"] = {"k": "LocalH3Error", "h3": "ClosedCriticalStreamError"}
            return ev
    if any(e.get("ev") == "reset" and e.get("meta", {}).get("variant") == "predecision" for e in ev):
        return None
    for e in ev:
        if e.get("ev") == "peer_closed" and e.get("why", {}).get("k") != "LocallyClosed":
            e["why"] = {"k": "LocallyClosed"}
            return ev
    return None


def c09(tier):
    import scen
    cfgs = [("DriverMC.tla", "Driver_term_quick.cfg" if tier == "quick" else "Driver_term.cfg")]
    return e2e_check(
        "C09", tier, scen.c09(tier, vlib.seed()), "C09Trace.tla", _corrupt_c09,
        ["causes {peer QUIC close, close capsule, clean FIN, local protocol error provoked by the peer, local close, idle timeout (700 ms), "
         "all handles dropped, all handles dropped with stalled incoming streams} x pending operations {accept_uni, accept_bi, receive_datagram, "
         "closed, read, stopped} x {0, 2} cloned handles x both roles; every pending and later call must complete within 5-7 s with an error "
         "from the cause's allowed set; the raw peer must see the close; Driver.tla model-checked: the shared result is set before any queue "
         "closes (Driver::result cannot panic), the cause is never misattributed, termination completes",
         "a pending connection-level call holds a handle, so 'all handles dropped' is exercised without pending calls"],
        mc_cfgs=cfgs, par=6, threads=4, mech=True)


PROPS["C09"] = c09


# ================================================================= C10 / C19 / C20

def tls_check(pid, tier, suites, mc_cfgs, note, corrupt, extra_e2e=None):
    t0 = time.time()
    verdict = vlib.Verdict(pid)
    cov = {"states": 0, "transitions": 0, "traces_validated_against_impl": 0, "samples": [],
           "events_by_kind": {}, "model_checking": [], "repo_head": vlib.repo_head(), "exhaustive": False}
    for spec, cfg in mc_cfgs:
        r = vlib.tlc_mc(spec, cfg, "%s-%s" % (pid, cfg), workers=4)
        cov["model_checking"].append({"spec": spec, "cfg": cfg, "ok": r["ok"], "generated": r["generated"],
                                      "distinct": r["distinct"], "wall_s": r["wall_s"]})
        cov["states"] += r["distinct"]
        cov["transitions"] += r["generated"]
        if not r["ok"]:
            raise vlib.ToolError("model %s/%s violated" % (spec, cfg))
    wd = vlib.workdir(pid)
    try:
        binary = vlib.build_harness("debug")
        selftested = 0
        for suite in suites:
            trace = os.path.join(wd, "%s.ndjson" % suite)
            vlib.run_harness(binary, [suite, "--out", trace, "--tier", tier, "--seed", str(vlib.seed()),
                                      "--scratch", os.path.join(wd, "scratch")])
            total, mism, states = vlib.tlc_validate(trace, "%s-%s" % (pid, suite), spec="TlsTrace.tla",
                                                    cfg="TlsTrace.cfg", chunk_lines=5000, parallel=8)
            cov["traces_validated_against_impl"] += total
            cov["states"] += states
            cov["transitions"] += total
            counts, _ = vlib.count_events(trace)
            for k, v in counts.items():
                cov["events_by_kind"][k] = cov["events_by_kind"].get(k, 0) + v
            cov["samples"] += vlib.sample_lines(trace, 3)
            bad = vlib.read_lines(trace, mism)
            for ln in mism:
                e = bad[ln]
                verdict.reject({"ev": e.get("ev"), "res": e.get("res")}, {"suite": suite, "line": ln, "event": vlib._shorten(e)})
            if selftested == 0:
                path = os.path.join(wd, "corrupt.ndjson")
                n = 0
                rejected = set(mism)
                with open(trace) as f, open(path, "w") as g:
                    for ln, line in enumerate(f, 1):
                        if ln in rejected:
                            continue        # (corrupting a line the validation rejected may make it right)
                        c = corrupt(json.loads(line))
                        if c is not None and n < 20:
                            g.write(json.dumps(c) + "\n")
                            n += 1
                if n:
                    _, m2, _ = vlib.tlc_validate(path, "self-" + pid, spec="TlsTrace.tla", cfg="TlsTrace.cfg", parallel=1)
                    if len(m2) != n and not verdict.violations:
                        raise vlib.ToolError("binding self-test failed for %s: %d corrupted, %d rejected" % (pid, n, len(m2)))
                    selftested = n
        cov["binding_selftest_lines_rejected"] = selftested
        parts = [("direct", (verdict, cov, note))]
        if extra_e2e:
            parts.append(("end_to_end", extra_e2e()))
        combine.t0 = t0
        return combine(pid, tier, parts)
    finally:
        vlib.cleanup(wd)


def _corrupt_pin(e):
    if e.get("ev") == "pin" and e.get("res") == "err" and e.get("hashes") == "own" and e.get("key") == "p256":
        e = dict(e)
        e["res"] = "ok"
        return e
    return None


def _corrupt_ident(e):
    if e.get("ev") == "digest":
        e = dict(e)
        e["text"] = e["text"][:-1] + [e["text"][-1] ^ 1]
        return e
    return None


def _corrupt_cfg(e):
    if e.get("ev") == "bind" and e.get("side") == "server":
        e = dict(e)
        e["v6"] = not e["v6"]
        return e
    return None


def c19(tier):
    return tls_check("C19", tier, ["ident"], [("PinningMC.tla", "PinningMC.cfg")],
                     ["SAN lists by class (DNS, IPv4, IPv6, mixed, empty, wildcard, punycode, non-ASCII, near-miss IPv4), every builder "
                      "variant; generated certificates parsed with x509-parser and checked against the W3C profile and against the pinning "
                      "verifier with their own hash; certificates of three key types, chains of 0..4, keys and whole identities stored and "
                      "loaded through PEM files byte for byte; 15+ kinds of corrupt PEM/DER; 258 structured + 1 500 random digests (20 000 in "
                      "thorough) formatted and parsed in both formats against the TLA+ formatter; malformed digest strings",
                      "base64/DER internals are exercised through pem, rcgen, x509-parser, rustls-pki-types, not modelled"],
                     _corrupt_ident)


def c20(tier):
    return tls_check("C20", tier, ["cfg"], [("PinningMC.tla", "PinningMC.cfg")],
                     ["every IpBindConfig preset and explicit v4/v6 address x dual-stack choice x pre-bound socket on the server builder "
                      "(identity, custom-transport and custom-TLS paths in thorough) and every preset on the client builder: bound "
                      "family/address read back and reachability probed over IPv4 and IPv6 loopback with real handshakes; ALPN h3 negotiated, "
                      "a peer offering only another ALPN is refused in both roles; idle timeouts None..Duration::MAX for representability; "
                      "idle timeout and keep-alive observed on live connections in both roles; migration on/off observed with a raw client "
                      "that changes its UDP socket; reload_config observed with two raw clients",
                      "reachability table written from the documentation of IpBindConfig; LocalDual over IPv4 is not decided by it"],
                     _corrupt_cfg)


PROPS.update({"C19": c19, "C20": c20})


def _corrupt_c10(events):
    ev = json.loads(json.dumps(events))
    for e in ev:
        if e.get("ev") == "connect_returned" and e.get("res") == "err":
            e["res"] = "ok"
            return ev
    return None


def c10(tier):
    import scen

    def e2e():
        return e2e_check("C10", tier, scen.c10(tier, vlib.seed()), "C10Trace.tla", _corrupt_c10,
                         ["end to end: 6 server identities (14-day P-256, 15-day, expired, not yet valid, P-384, Ed25519) x 6 client trust "
                          "policies (own hash, own hash among others, other hash, empty set, native roots, no validation) between two real endpoints"],
                         par=6, threads=4, defer=True)

    return tls_check("C10", tier, ["pin"], [("PinningMC.tla", "PinningMC.cfg")],
                     ["the real verifier called with an injected clock on certificates minted with exact validity bounds: now at -1/0/+1 s of both "
                      "ends, periods 14 d -1/0/+1 s and 1 s .. 10 y, keys P-256/P-384/Ed25519, hash sets empty/own/other/many; Pinning.tla proves "
                      "the step machine equals the four-way conjunction on the same grid"],
                     _corrupt_pin, extra_e2e=e2e)


PROPS["C10"] = c10
