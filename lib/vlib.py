"""Shared machinery for the wtransport verification checks.

Exit codes of a check: 0 = property held on everything explored,
1 = VIOLATION line printed (a monitor rejected an execution of the real code),
2 = tool failure (build error, TLC/JVM error, timeout) - never a verdict.
"""
import json
import os
import re
import subprocess
import sys
import time
import shutil
import concurrent.futures

VERIF = os.path.dirname(os.path.dirname(os.path.abspath(__file__)))
SPEC = os.path.join(VERIF, "spec")
HARNESS = os.path.join(VERIF, "harness")
WORK = os.path.join(VERIF, "work")
EVID = os.environ.get("VERIF_EVIDENCE_DIR") or os.path.join(VERIF, "evidence")   # (mutant evaluations write elsewhere)
REPLAYS = os.path.join(VERIF, "replays")
REPO = "/repo"
TLA_JAR = "/opt/veriftools/tla/tla2tools.jar"
CM_JAR = "/opt/veriftools/tla/CommunityModules-deps.jar"


class ToolError(Exception):
    pass


class HarnessCrash(Exception):
    """The harness process died (abort / signal) or hung inside a call into the code under
    test; `label` and `input_hex` come from the crash journal written before each call."""

    def __init__(self, how, label, input_hex):
        Exception.__init__(self, "%s in %s on input %s" % (how, label, input_hex[:120]))
        self.how, self.label, self.input_hex = how, label, input_hex


def log(*a):
    print(*a, file=sys.stderr, flush=True)


def seed():
    try:
        return int(os.environ.get("VERIF_SEED", "0"))
    except ValueError:
        return 0


def workdir(name):
    d = os.path.join(WORK, "%s.%d" % (name, os.getpid()))
    shutil.rmtree(d, ignore_errors=True)
    os.makedirs(d)
    return d


def cleanup(d):
    if os.environ.get("VERIF_KEEP"):
        return
    shutil.rmtree(d, ignore_errors=True)


# --------------------------------------------------------------------------- build

def hooks_present():
    """The wtransport_verif hooks (wtransport::verif) exist in /repo's working tree."""
    return os.path.exists(os.path.join(REPO, "wtransport", "src", "driver", "verif.rs"))


def build_harness(profile="debug"):
    """Rebuilds the harness (and with it /repo's working tree) and returns the binary."""
    lock_src = os.path.join(REPO, "Cargo.lock")
    lock_dst = os.path.join(HARNESS, "Cargo.lock")
    if not os.path.exists(lock_dst):
        shutil.copy(lock_src, lock_dst)
    cmd = ["cargo", "build", "--offline", "--quiet"]
    if profile == "release":
        cmd.append("--release")
    if hooks_present():
        cmd += ["--features", "mech"]
    env = dict(os.environ)
    env["CARGO_NET_OFFLINE"] = "true"
    t0 = time.time()
    p = subprocess.run(cmd, cwd=HARNESS, env=env, stdout=subprocess.PIPE,
                       stderr=subprocess.STDOUT, text=True)
    if p.returncode != 0:
        log(p.stdout[-4000:])
        raise ToolError("harness build failed (%s)" % profile)
    log("[build] %s harness in %.1fs" % (profile, time.time() - t0))
    return os.path.join(HARNESS, "target", profile, "wtv")


def _journal(args):
    if "--out" not in args:
        return None
    path = args[args.index("--out") + 1] + ".journal"
    try:
        with open(path) as f:
            line = f.readline().strip()
        if line:
            label, _, hexin = line.partition(" ")
            return label, hexin
    except OSError:
        pass
    return None


def run_harness(binary, args, timeout=900, env_extra=None):
    env = dict(os.environ)
    if env_extra:
        env.update(env_extra)
    t0 = time.time()
    try:
        p = subprocess.run([binary] + args, stdout=subprocess.PIPE, stderr=subprocess.PIPE,
                           text=True, timeout=timeout, env=env)
    except subprocess.TimeoutExpired:
        j = _journal(args)
        if j and args[0] != "e2e":
            raise HarnessCrash("no progress within %ds" % timeout, j[0], j[1])
        raise ToolError("harness timeout: %s" % " ".join(args))
    if p.returncode != 0:
        log(p.stdout[-2000:])
        log(p.stderr[-4000:])
        j = _journal(args)
        if j and args[0] != "e2e" and (p.returncode < 0 or p.returncode in (134, 139)):
            raise HarnessCrash("process died (exit %d: abort / allocation failure / stack overflow)" % p.returncode,
                               j[0], j[1])
        raise ToolError("harness failed (%d): %s" % (p.returncode, " ".join(args)))
    log("[harness] %s in %.1fs: %s" % (args[0], time.time() - t0, p.stdout.strip()[-200:]))
    return p.stdout


# ----------------------------------------------------------------------------- TLC

def _java(xmx, extra_props=()):
    return ["java", "-XX:+UseParallelGC", "-Xss512m", "-Xmx%s" % xmx] + list(extra_props) + \
           ["-cp", TLA_JAR + ":" + CM_JAR, "tlc2.TLC"]


def tlc_raw(spec, cfg, metadir, workers=1, env_extra=None, timeout=1800, xmx="3g",
            extra_args=(), props=()):
    """Runs TLC in SPEC dir; returns (returncode, output)."""
    env = dict(os.environ)
    env.pop("JAVA_TOOL_OPTIONS", None)
    if env_extra:
        env.update(env_extra)
    cmd = _java(xmx, props) + ["-workers", str(workers), "-metadir", metadir, "-cleanup",
                               "-noGenerateSpecTE", "-config", cfg] + list(extra_args) + [spec]
    try:
        p = subprocess.run(cmd, cwd=SPEC, env=env, stdout=subprocess.PIPE,
                           stderr=subprocess.STDOUT, text=True, timeout=timeout)
    except subprocess.TimeoutExpired:
        raise ToolError("TLC timeout on %s" % spec)
    return p.returncode, p.stdout


RE_STATES = re.compile(r"(\d[\d,]*) states generated, (\d[\d,]*) distinct states found")


def parse_states(out):
    m = None
    for m in RE_STATES.finditer(out):
        pass
    if not m:
        return 0, 0
    return int(m.group(1).replace(",", "")), int(m.group(2).replace(",", ""))


def tlc_mc(spec, cfg, name, workers=4, timeout=1800, xmx="4g", env_extra=None, extra_args=()):
    """Model-checks spec with cfg. Returns dict(ok, generated, distinct, out, prints)."""
    md = workdir("mc-" + name)
    t0 = time.time()
    try:
        rc, out = tlc_raw(spec, cfg, md, workers=workers, timeout=timeout, xmx=xmx,
                          env_extra=env_extra, extra_args=extra_args)
    finally:
        cleanup(md)
    gen, dist = parse_states(out)
    ok = rc == 0 and "Model checking completed. No error has been found." in out
    if not ok and not re.search(r"Error: (Invariant|Temporal|Action property|Deadlock|The postcondition)|is violated", out):
        log(out[-3000:])
        raise ToolError("TLC failed on %s/%s (rc=%d)" % (spec, cfg, rc))
    log("[tlc] %s %s: %s, %d generated / %d distinct in %.1fs" %
        (spec, cfg, "ok" if ok else "VIOLATED", gen, dist, time.time() - t0))
    return {"ok": ok, "generated": gen, "distinct": dist, "out": out,
            "wall_s": round(time.time() - t0, 2)}


def apalache_laws(spec, inv, name, timeout=600):
    """Apalache (symbolic, unbounded integers): `inv` holds in every initial state of spec/apalache/<spec>,
    i.e. for ALL values of the constant-like variables.  Returns a coverage record; absence or failure of
    the tool only downgrades the evidence (the TLC checks stand on their own) - except a reported
    counterexample, which means the reference laws themselves are wrong: ToolError."""
    exe = shutil.which("apalache-mc")
    rec = {"tool": "apalache", "spec": "apalache/" + spec, "inv": inv, "ran": False}
    if not exe:
        rec["note"] = "apalache-mc not found"
        return rec
    od = workdir("apa-" + name)
    t0 = time.time()
    try:
        r = subprocess.run(["timeout", str(timeout), exe, "check", "--init=Init", "--next=Next", "--inv=" + inv,
                            "--length=0", "--out-dir=" + od, os.path.join(SPEC, "apalache", spec)],
                           stdout=subprocess.PIPE, stderr=subprocess.STDOUT, text=True, cwd=od)
        out = r.stdout
    finally:
        cleanup(od)
    rec["wall_s"] = round(time.time() - t0, 1)
    if "The outcome is: NoError" in out:
        rec.update(ran=True, ok=True)
        log("[apalache] %s %s: holds for all values in %.1fs" % (spec, inv, rec["wall_s"]))
    elif "The outcome is: Error" in out or "violat" in out.lower():
        log(out[-2000:])
        raise ToolError("Apalache: %s violates %s (the reference laws are wrong)" % (spec, inv))
    else:
        rec["note"] = "no verdict (rc=%d)" % r.returncode
        log("[apalache] %s %s: no verdict (rc=%d)" % (spec, inv, r.returncode))
    return rec


def apalache_run(spec, args, name, expect_error=False, timeout=900):
    """One apalache-mc check run on spec/apalache/<spec>. Returns a coverage record; the tool being
    absent or giving no verdict only downgrades the evidence; a verdict opposite to the expected one
    means the model itself is wrong: ToolError."""
    exe = shutil.which("apalache-mc")
    rec = {"tool": "apalache", "spec": "apalache/" + spec, "args": " ".join(args), "ran": False,
           "expected": "Error" if expect_error else "NoError"}
    if not exe:
        rec["note"] = "apalache-mc not found"
        return rec
    od = workdir("apa-" + name)
    t0 = time.time()
    try:
        r = subprocess.run(["timeout", str(timeout), exe, "check"] + list(args) + ["--out-dir=" + od,
                            os.path.join(SPEC, "apalache", spec)],
                           stdout=subprocess.PIPE, stderr=subprocess.STDOUT, text=True, cwd=od)
        out = r.stdout
    finally:
        cleanup(od)
    rec["wall_s"] = round(time.time() - t0, 1)
    got = "NoError" if "The outcome is: NoError" in out else ("Error" if "The outcome is: Error" in out else None)
    if got is None:
        rec["note"] = "no verdict (rc=%d)" % r.returncode
        log("[apalache] %s %s: no verdict" % (spec, " ".join(args)))
        return rec
    rec.update(ran=True, outcome=got)
    if got != rec["expected"]:
        log(out[-2000:])
        raise ToolError("Apalache: %s %s gave %s, expected %s" % (spec, " ".join(args), got, rec["expected"]))
    log("[apalache] %s %s: %s as expected in %.1fs" % (spec, " ".join(args), got, rec["wall_s"]))
    return rec


def tlc_mech(trace_path, name, timeout=1500):
    """Validates mechanism segments against DriverTrace.tla. Returns (furthest position reached by any
    behaviour, states); the file is accepted iff furthest = number of lines + 1."""
    md = workdir("val-" + name)
    try:
        rc, out = tlc_raw("DriverTrace.tla", "DriverTrace.cfg", md, workers=1, env_extra={"TRACE": trace_path},
                          timeout=timeout, xmx="4g", props=["-Dtlc2.tool.queue.IStateQueue=StateDeque"])
    finally:
        cleanup(md)
    m = re.search(r'<<"FURTHEST", (\d+), (\d+)>>', out)
    if not m:
        log(out[-3000:])
        raise ToolError("DriverTrace validation produced no verdict (rc=%d)" % rc)
    _, dist = parse_states(out)
    return int(m.group(1)), dist


def tlc_prints(out, tag):
    """Lines printed by PrintT(<<"tag", ...>>) - returns the raw text after the tag."""
    res = []
    pat = re.compile(r'^<<"%s", ?(.*)>>\s*$' % re.escape(tag))
    for line in out.splitlines():
        m = pat.match(line.strip())
        if m:
            res.append(m.group(1))
    return res


def _validate_chunk(args):
    spec, cfg, path, md, timeout = args
    rc, out = tlc_raw(spec, cfg, md, workers=1, env_extra={"TRACE": path}, timeout=timeout,
                      xmx="3g", props=["-Dtlc2.tool.queue.IStateQueue=StateDeque"])
    shutil.rmtree(md, ignore_errors=True)
    return rc, out


def tlc_validate(trace_path, name, spec="CodecTrace.tla", cfg="CodecTrace.cfg",
                 chunk_lines=20000, parallel=8, timeout=1500):
    """Validates an ndjson trace against a *_Trace spec whose Next judges each line and
    prints <<"MISMATCH", l>> for rejected lines. Returns (n_lines, [global line numbers],
    n_states). Raises ToolError if some chunk was not consumed completely."""
    wd = workdir("val-" + name)
    t0 = time.time()
    try:
        chunks = []
        with open(trace_path) as f:
            buf, start, n = [], 1, 0
            for line in f:
                n += 1
                buf.append(line)
                if len(buf) >= chunk_lines:
                    chunks.append((start, buf))
                    start, buf = n + 1, []
            if buf:
                chunks.append((start, buf))
        total = n
        jobs = []
        for i, (start, buf) in enumerate(chunks):
            p = os.path.join(wd, "chunk%d.ndjson" % i)
            with open(p, "w") as f:
                f.writelines(buf)
            jobs.append((spec, cfg, p, os.path.join(wd, "meta%d" % i), timeout))
        mism = []
        states = 0
        with concurrent.futures.ThreadPoolExecutor(max_workers=parallel) as ex:
            for (start, buf), (rc, out) in zip(chunks, ex.map(_validate_chunk, jobs)):
                done = tlc_prints(out, "VALIDATED")
                if rc != 0 or not done or int(done[0]) != len(buf):
                    log(out[-3000:])
                    raise ToolError("trace validation did not complete for chunk at line %d" % start)
                states += len(buf) + 1
                for m in tlc_prints(out, "MISMATCH"):
                    mism.append(start + int(m.split(",")[0]) - 1)
        log("[validate] %s: %d lines, %d mismatches, %.1fs" % (name, total, len(mism), time.time() - t0))
        return total, sorted(mism), states
    finally:
        cleanup(wd)


def read_lines(path, wanted):
    """Returns {lineno: parsed json} for the wanted 1-based line numbers."""
    wanted = set(wanted)
    res = {}
    if not wanted:
        return res
    with open(path) as f:
        for i, line in enumerate(f, 1):
            if i in wanted:
                res[i] = json.loads(line)
    return res


def sample_lines(path, k=3):
    """k events spread over the file (not just the first, trivial, ones)."""
    with open(path) as f:
        n = sum(1 for _ in f)
    if n == 0:
        return []
    wanted = sorted({min(n - 1, int(n * (i + 0.5) / k)) for i in range(k)})
    out = []
    with open(path) as f:
        for i, line in enumerate(f):
            if i in wanted:
                try:
                    out.append(_shorten(json.loads(line)))
                except ValueError:
                    pass
    return out


def _shorten(e, maxlen=64):
    if isinstance(e, dict):
        return {k: _shorten(v, maxlen) for k, v in e.items()}
    if isinstance(e, list):
        if len(e) > maxlen:
            return [_shorten(x, maxlen) for x in e[:maxlen]] + ["...(%d)" % len(e)]
        return [_shorten(x, maxlen) for x in e]
    return e


def count_events(path, key="ev"):
    c = {}
    distinct = set()
    with open(path) as f:
        for line in f:
            try:
                e = json.loads(line)
            except ValueError:
                continue
            k = e.get(key, "?")
            if "api" in e:
                k = "%s/%s" % (k, e["api"])
            c[k] = c.get(k, 0) + 1
            distinct.add(line)
    return c, len(distinct)


# ------------------------------------------------------------------- known findings

def load_findings(pid):
    p = os.path.join(VERIF, "known_findings.json")
    if not os.path.exists(p):
        return []
    with open(p) as f:
        data = json.load(f)
    return [x for x in data.get("findings", []) if x.get("property") == pid]


def finding_matches(finding, case):
    """A finding's `match` is a dict of key -> expected value; every key must be present
    in the case (a flat dict describing the rejected execution) with that value."""
    m = finding.get("match", {})
    for k, v in m.items():
        if case.get(k) != v:
            return False
    return True


# ------------------------------------------------------------------------- verdicts

class Verdict:
    def __init__(self, pid):
        self.pid = pid
        self.violations = []
        self.known = []
        self.findings = load_findings(pid)

    def reject(self, case, detail):
        """case: flat dict identifying the failing execution; detail: replayable blob."""
        for f in self.findings:
            if finding_matches(f, case):
                self.known.append((f, case))
                return
        self.violations.append((case, detail))

    def finish(self):
        seen = set()
        for f, case in self.known:
            if f["id"] in seen:
                continue
            seen.add(f["id"])
            print("KNOWN-FINDING: property=%s %s" % (self.pid, f["what"]), flush=True)
        if not self.violations:
            return 0
        os.makedirs(REPLAYS, exist_ok=True)
        shown = 0
        for i, (case, detail) in enumerate(self.violations[:20]):
            path = os.path.join(REPLAYS, "%s-%d-%d.json" % (self.pid, os.getpid(), i))
            with open(path, "w") as f:
                json.dump({"property": self.pid, "case": case, "detail": detail}, f, indent=1)
            print("VIOLATION property=%s replay=%s" % (self.pid, path), flush=True)
            shown += 1
        if len(self.violations) > shown:
            log("(%d more violations not written)" % (len(self.violations) - shown))
        return 1


# ------------------------------------------------------------------------- evidence

def write_evidence(pid, tier, level, coverage, assumptions, wall_s, violations):
    os.makedirs(EVID, exist_ok=True)
    ev = {
        "property_id": pid,
        "tier": tier,
        "seed": seed(),
        "level": level,
        "coverage": coverage,
        "assumptions": assumptions,
        "wall_s": round(wall_s, 2),
        "violations": violations,
    }
    tmp = os.path.join(EVID, ".%s.json.%d" % (pid, os.getpid()))
    with open(tmp, "w") as f:
        json.dump(ev, f, indent=1)
    os.replace(tmp, os.path.join(EVID, "%s.json" % pid))


def repo_head():
    try:
        return subprocess.run(["git", "-C", REPO, "rev-parse", "--short", "HEAD"],
                              stdout=subprocess.PIPE, text=True).stdout.strip()
    except Exception:
        return "?"
