#!/bin/sh
# runs every registered quick (or $1) check sequentially; prints one line per check
cd "$(dirname "$0")/.."
tier=${1:-quick}
for p in $(python3 -c "import json;print(' '.join(c['property_id'] for c in json.load(open('MANIFEST.json'))['checks']))"); do
  s=$(date +%s)
  out=$(./check $p --tier $tier 2>&1); rc=$?
  e=$(date +%s)
  echo "$p rc=$rc $((e-s))s $(echo "$out" | grep -E 'VIOLATION|KNOWN-FINDING|TOOL-ERROR' | cut -c1-120 | head -3)"
done
