#!/usr/bin/env python3
"""seed_eval.py [--only ID ...] [--extra ID=Cxx,Cyy ...]
For every mutant under /verif/seeded: apply its patch to /repo, run the quick check of its own
property (plus the cross-checks listed in CROSS), ALWAYS restore /repo, record the outcome in
seeded/<id>/meta.json["detection"], and rewrite seeded/RESULTS.md."""
import json, os, subprocess, sys, time

V = os.path.abspath(os.path.join(os.path.dirname(os.path.abspath(__file__)), ".."))
SEED = os.path.join(V, "seeded")
# checks other than the mutant's own property that are also expected to see it
CROSS = {"C01-m1": ["C14", "C16"], "C01-m3": ["C08"], "C02-m2": ["C11"], "C13-m1": ["C11"], "C13-m3": ["C15"],
         "C05-m3": ["C07"], "C16-m2": ["C14"], "C16-m3": ["C03"], "C17-m3": ["C03"],
         "C06-r4m2": ["C09"], "C06-r4m3": ["C01"], "C11-r4m3": ["C18"], "C08-r6m3": ["C01"], "C20-r5m3": ["C02"]}


def sh(cmd):
    return subprocess.run(cmd, shell=True, stdout=subprocess.PIPE, stderr=subprocess.STDOUT, text=True)


def head():
    return sh("git -C /repo rev-parse --short HEAD").stdout.strip()


def evaluate(mid):
    d = os.path.join(SEED, mid)
    meta = json.load(open(os.path.join(d, "meta.json")))
    if sh("git -C /repo status --porcelain").stdout.strip():
        print("REPO NOT CLEAN"); sys.exit(2)
    r = sh("git -C /repo apply %s/patch.diff" % d)
    base = "HEAD"
    if r.returncode != 0:
        # the patch was written before the verification hooks were committed: evaluate it on the tree
        # without them (the checks work with and without hooks)
        hooks = json.load(open(os.path.join(V, "MANIFEST.json")))["hooks"].get("source_commits", [])
        ok = False
        if hooks:
            sh("git -C /repo reset -q --hard HEAD")
            rr = sh("git -C /repo revert --no-commit %s" % " ".join(reversed(hooks)))
            if rr.returncode == 0 and sh("git -C /repo apply %s/patch.diff" % d).returncode == 0:
                ok, base = True, "HEAD with the hook commits reverted in the working tree"
        if not ok:
            sh("git -C /repo revert --abort; git -C /repo reset -q --hard HEAD")
            meta["detection"] = {"error": "patch does not apply to /repo HEAD %s" % head()}
            json.dump(meta, open(os.path.join(d, "meta.json"), "w"), indent=1)
            print(mid, "patch does not apply"); return
    det = {}
    try:
        for c in [meta["property"]] + CROSS.get(mid, []):
            t0 = time.time()
            r = sh("cd %s && VERIF_EVIDENCE_DIR=%s/work/evidence_seeded ./check %s --tier quick" % (V, V, c))
            viol = [l for l in r.stdout.splitlines() if l.startswith("VIOLATION")]
            tool = [l for l in r.stdout.splitlines() if l.startswith("TOOL-ERROR")]
            det[c] = {"rc": r.returncode, "violations": len(viol), "tool_error": tool[:1], "wall_s": round(time.time() - t0),
                      "verdict": "caught" if r.returncode == 1 and viol else ("tool-error" if r.returncode == 2 else "missed")}
            print(mid, c, det[c]["verdict"], len(viol), "%ds" % det[c]["wall_s"], flush=True)
    finally:
        sh("git -C /repo revert --abort; git -C /repo reset -q --hard HEAD && git -C /repo clean -fdq -e target")
    if os.environ.get("SEED_EVAL_NOWRITE"):
        return
    meta["detection"] = {"repo_head": head(), "applied_on": base, "tier": "quick", "checks": det,
                         "ran": "git -C /repo apply seeded/%s/patch.diff; ./check <id> --tier quick; git -C /repo checkout -- ." % mid}
    json.dump(meta, open(os.path.join(d, "meta.json"), "w"), indent=1)


def results():
    rows = []
    for mid in sorted(os.listdir(SEED)):
        p = os.path.join(SEED, mid, "meta.json")
        if not os.path.exists(p):
            continue
        m = json.load(open(p))
        ch = m.get("detection", {}).get("checks", {})
        own = ch.get(m["property"], {}).get("verdict", "not evaluated")
        others = ", ".join("%s: %s" % (c, v["verdict"]) for c, v in ch.items() if c != m["property"])
        note = m.get("note", "")
        rows.append("| %s | %s | %s | %s | %s |" % (mid, (m.get("summary") or "").replace("|", "/").replace("\n", " ")[:230],
                                                  own, others, note))
    with open(os.path.join(SEED, "RESULTS.md"), "w") as f:
        f.write("# Seeded changes and which checks see them\n\n"
                "Each row is a change to BiagioFesta/wtransport written by a fresh sub-agent that was given only the property\n"
                "text and a scratch worktree (nothing from /verif), then confirmed independently (`tools/confirm_mutant.sh`:\n"
                "compiles, the 76 existing tests pass, its demonstration fails with the change and passes without).\n"
                "`own check` is the quick tier of the property the change was aimed at (`tools/seed_eval.py`).\n\n"
                "| id | change | own check | other checks | note |\n|---|---|---|---|---|\n" + "\n".join(rows) + "\n")


if __name__ == "__main__":
    args = sys.argv[1:]
    only = []
    if "--only" in args:
        only = args[args.index("--only") + 1:]
    if "--report" not in args:
        for mid in sorted(os.listdir(SEED)):
            if os.path.isdir(os.path.join(SEED, mid)) and (not only or mid in only):
                evaluate(mid)
    if not os.environ.get("SEED_EVAL_NOWRITE"):
        results()
