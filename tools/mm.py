#!/usr/bin/env python3
# usage: mm.py trace.ndjson tlc.out  -> summary of mismatching events
import sys,json,re,collections
lines=open(sys.argv[1]).read().split('\n')
c=collections.Counter(); ex={}
for m in open(sys.argv[2]):
    if 'MISMATCH' not in m: continue
    i=int(re.findall(r'\d+',m)[0]); e=json.loads(lines[i-1])
    k=(e['ev'],e.get('api'),e.get('res'))
    c[k]+=1; ex.setdefault(k,[]).append(lines[i-1][:int(sys.argv[3]) if len(sys.argv)>3 else 400])
for k,v in c.most_common():
    print(k,v)
    for x in ex[k][:3]: print('   ',x)
