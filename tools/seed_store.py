#!/usr/bin/env python3
"""seed_store.py <agent-output-root>: copies every mutant that was independently confirmed
(confirm.json, written by tools/confirm_mutant.sh) into /verif/seeded/<Cxx-mK>/ as
patch.diff + demo.rs + meta.json (property, what it needs to manifest, what its author ran,
what we ran to confirm it)."""
import glob, json, os, shutil, sys

root = sys.argv[1] if len(sys.argv) > 1 else "/tmp/mut"
tag = sys.argv[2] if len(sys.argv) > 2 else ""       # e.g. "r3": ids become Cxx-r3mK
dst = os.path.join(os.path.dirname(os.path.abspath(__file__)), "..", "seeded")
for d in sorted(glob.glob(os.path.join(root, "out_C*", "m*"))):
    prop = os.path.basename(os.path.dirname(d))[4:]
    mid = "%s-%s%s" % (prop, tag, os.path.basename(d))
    cj = os.path.join(d, "confirm.json")
    if not os.path.exists(cj):
        print(mid, "not confirmed yet"); continue
    conf = json.load(open(cj))
    if not conf.get("confirmed"):
        print(mid, "NOT CONFIRMED - skipped"); continue
    out = os.path.join(dst, mid)
    os.makedirs(out, exist_ok=True)
    shutil.copy(os.path.join(d, "patch.diff"), os.path.join(out, "patch.diff"))
    for f in os.listdir(d):
        if f.startswith("demo"):
            shutil.copy(os.path.join(d, f), os.path.join(out, f))
    meta = json.load(open(os.path.join(d, "meta.json")))
    old = {}
    if os.path.exists(os.path.join(out, "meta.json")):
        old = json.load(open(os.path.join(out, "meta.json")))
    m = {"id": mid, "property": prop, "summary": meta.get("summary"), "needs": meta.get("needs"),
         "author": "fresh sub-agent given only the property text and a scratch worktree of /repo",
         "author_ran": meta.get("ran"),
         "confirmation": {
             "how": "tools/confirm_mutant.sh in a scratch worktree under /tmp: demo on the pristine tree, patch applied, "
                    "`cargo test --workspace --no-fail-fast --offline`, demo with the patch",
             "demo_crate": conf.get("crate"), "demo_on_pristine_rc": conf.get("demo_on_pristine_rc"),
             "suite_with_patch_rc": conf.get("suite_with_patch_rc"), "suite_summary": conf.get("suite_summary"),
             "demo_with_patch_rc": conf.get("demo_with_patch_rc"), "demo_with_patch_tail": conf.get("demo_with_patch_tail")},
         "detection": old.get("detection", {})}
    json.dump(m, open(os.path.join(out, "meta.json"), "w"), indent=1)
    print(mid, "stored")
