#!/bin/bash
# confirm_mutant.sh <mutant-dir>: independent confirmation in a scratch worktree:
#  (a) with the patch the workspace builds and the existing tests pass,
#  (b) the demonstration passes on the pristine tree and fails with the patch.
# Writes <mutant-dir>/confirm.json.
d=$(cd "$1" && pwd)
# CONFIRM_WT / CONFIRM_TARGET: run several confirmations side by side, each in its own worktree
wt=${CONFIRM_WT:-/tmp/confirm_wt}
export CARGO_TARGET_DIR=${CONFIRM_TARGET:-/tmp/confirm_target} CARGO_NET_OFFLINE=true
lg=/tmp/confirm_$(basename $wt)
if [ ! -d $wt ]; then git -C /repo worktree add -q $wt HEAD; fi
cd $wt && git checkout -q -- . && git clean -fdq && git reset -q --hard $(git -C /repo rev-parse HEAD)
demo=$d/demo.rs
if grep -q "wtransport_proto::\|use wtransport_proto" $demo && ! grep -q "wtransport::" $demo; then
  crate=wtransport-proto; feats="--features async"
else
  crate=wtransport; feats="--features dangerous-configuration,quinn"
fi
mkdir -p $wt/$crate/tests
run_demo() { cp $demo $wt/$crate/tests/demo.rs; timeout 900 cargo test -p $crate --offline $feats --test demo >${lg}_demo.log 2>&1; rc=$?; rm -f $wt/$crate/tests/demo.rs; return $rc; }
run_demo; pristine_rc=$?
git apply $d/patch.diff; apply_rc=$?
timeout 1800 cargo test --workspace --no-fail-fast --offline >${lg}_suite.log 2>&1; suite_rc=$?
suite=$(grep -E "^test result" ${lg}_suite.log | tr '\n' ';')
run_demo; mutant_rc=$?
demo_tail=$(grep -E "^test .*FAILED|panicked|test result" ${lg}_demo.log | head -5 | tr '\n' ';' | cut -c1-600)
git checkout -q -- . && git clean -fdq
python3 - "$d" "$crate" "$pristine_rc" "$apply_rc" "$suite_rc" "$mutant_rc" "$suite" "$demo_tail" <<'PY'
import json,sys
d,crate,p,a,s,m,suite,tail=sys.argv[1:9]
ok = (p=="0" and a=="0" and s=="0" and m!="0")
json.dump({"crate":crate,"demo_on_pristine_rc":int(p),"patch_applies_rc":int(a),"suite_with_patch_rc":int(s),
           "demo_with_patch_rc":int(m),"suite_summary":suite,"demo_with_patch_tail":tail,"confirmed":ok},
          open(d+"/confirm.json","w"),indent=1)
print(d, "CONFIRMED" if ok else "NOT-CONFIRMED", p,a,s,m)
PY
