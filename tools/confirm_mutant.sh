#!/bin/sh
# confirm_mutant.sh <mutant-dir>: in a scratch worktree, check that with the patch the workspace builds,
# the existing tests pass, and report. (The demonstration is run separately, it differs per mutant.)
set -e
d=$(cd "$1" && pwd)
wt=/tmp/confirm_wt
git -C /repo worktree remove --force $wt 2>/dev/null || true
git -C /repo worktree add -q $wt HEAD
cd $wt
git apply "$d/patch.diff"
CARGO_TARGET_DIR=/tmp/confirm_target cargo test --workspace --no-fail-fast --offline 2>&1 | grep -E "^test result|FAILED|^error" | tr '\n' ';'
echo
