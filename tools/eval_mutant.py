#!/usr/bin/env python3
"""eval_mutant.py <mutant-dir> <check-id> [<check-id>...]
Applies <mutant-dir>/patch.diff to /repo, runs the given quick checks, ALWAYS restores /repo.
Prints one line per check: id rc summary."""
import json, os, subprocess, sys, time

def sh(cmd, **kw):
    return subprocess.run(cmd, shell=True, stdout=subprocess.PIPE, stderr=subprocess.STDOUT, text=True, **kw)

def main():
    d = os.path.abspath(sys.argv[1]); checks = sys.argv[2:]
    st = sh("git -C /repo status --porcelain").stdout.strip()
    if st:
        print("REPO NOT CLEAN:\n" + st); return 2
    r = sh("git -C /repo apply %s/patch.diff" % d)
    if r.returncode != 0:
        print("patch does not apply: " + r.stdout); return 2
    results = {}
    try:
        for c in checks:
            t0 = time.time()
            r = sh("cd /verif && ./check %s --tier %s" % (c, os.environ.get("TIER", "quick")))
            lines = [l for l in r.stdout.splitlines() if l.startswith(("VIOLATION", "KNOWN-FINDING", "TOOL-ERROR")) or " OK " in l or "VIOLATED" in l]
            nviol = sum(1 for l in lines if l.startswith("VIOLATION"))
            results[c] = {"rc": r.returncode, "violations": nviol, "wall_s": round(time.time() - t0, 1),
                          "tail": [l[:200] for l in lines[-3:]]}
            print("%s rc=%d violations=%d %.0fs %s" % (c, r.returncode, nviol, time.time() - t0,
                  (lines[-1][:120] if lines else r.stdout[-300:].replace("\n", " | "))), flush=True)
    finally:
        sh("git -C /repo checkout -- . && git -C /repo clean -fdq -e target")
    with open(os.path.join(d, "eval.json"), "w") as f:
        json.dump(results, f, indent=1)
    return 0

sys.exit(main())
