#!/usr/bin/env python3
# usage: mm2.py trace.ndjson tlc.out -> summary of rejected scenarios
import sys,json,re
L=[json.loads(l) for l in open(sys.argv[1])]
for m in open(sys.argv[2]):
    if 'MISMATCH' not in m: continue
    i=int(re.findall(r'\d+',m)[0])-1
    meta=L[i].get('meta'); role=L[i].get('role')
    obs=[]
    j=i
    while L[j]['ev']!='end':
        e=L[j]
        if e['ev']=='peer_closed': obs.append(('closed',e['why'].get('k'),e['why'].get('code')))
        if e['ev']=='op_done' and e.get('op') in ('accept_uni','accept_bi','stopped'):
            r=e['res']; obs.append((e['op'],e.get('tag'), r if not isinstance(r,dict) else (r.get('k'), r.get('err'))))
        j+=1
    print(role, meta.get('names'), obs)
