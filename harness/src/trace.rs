//! ndjson tracer, 62-bit projection, panic capture and allocation counting.
#![allow(dead_code)]

use serde_json::json;
use serde_json::Value;
use std::alloc::GlobalAlloc;
use std::alloc::Layout;
use std::alloc::System;
use std::cell::Cell;
use std::io::BufWriter;
use std::io::Write;
use std::panic::AssertUnwindSafe;

pub struct CountingAlloc;

thread_local! {
    static ALLOCATED: Cell<usize> = const { Cell::new(0) };
}

unsafe impl GlobalAlloc for CountingAlloc {
    unsafe fn alloc(&self, layout: Layout) -> *mut u8 {
        let _ = ALLOCATED.try_with(|a| a.set(a.get().wrapping_add(layout.size())));
        unsafe { System.alloc(layout) }
    }
    unsafe fn dealloc(&self, ptr: *mut u8, layout: Layout) {
        unsafe { System.dealloc(ptr, layout) }
    }
    unsafe fn realloc(&self, ptr: *mut u8, layout: Layout, new_size: usize) -> *mut u8 {
        if new_size > layout.size() {
            let _ =
                ALLOCATED.try_with(|a| a.set(a.get().wrapping_add(new_size - layout.size())));
        }
        unsafe { System.realloc(ptr, layout, new_size) }
    }
    unsafe fn alloc_zeroed(&self, layout: Layout) -> *mut u8 {
        let _ = ALLOCATED.try_with(|a| a.set(a.get().wrapping_add(layout.size())));
        unsafe { System.alloc_zeroed(layout) }
    }
}

pub fn allocated() -> usize {
    ALLOCATED.with(|a| a.get())
}

thread_local! {
    static LIB_ALLOC: Cell<usize> = const { Cell::new(0) };
}

struct LibGuard(usize);

impl Drop for LibGuard {
    fn drop(&mut self) {
        let d = allocated().wrapping_sub(self.0);
        LIB_ALLOC.with(|a| a.set(a.get().wrapping_add(d)));
    }
}

/// Runs a call into the library under test, attributing its allocations (also
/// when it panics) to the enclosing `measure`.
pub fn lib<T>(f: impl FnOnce() -> T) -> T {
    let _g = LibGuard(allocated());
    f()
}

/// 62/64-bit value as [hi, lo] with 31-bit halves (TLC integers are 32-bit signed).
/// Values >= 2^62 cannot be represented: they are emitted as [-1, -1] so that the
/// specification (which only knows values below 2^62) rejects them.
pub fn v62(v: u64) -> Value {
    if v >= (1u64 << 62) {
        json!([-1, -1])
    } else {
        json!([(v >> 31) as u32, (v & 0x7fff_ffff) as u32])
    }
}

pub fn bytes(b: &[u8]) -> Value {
    Value::Array(b.iter().map(|x| json!(*x)).collect())
}

pub struct Tracer {
    out: BufWriter<std::fs::File>,
    pub lines: usize,
}

impl Tracer {
    pub fn create(path: &str) -> Self {
        let f = std::fs::File::create(path).expect("create trace file");
        Self {
            out: BufWriter::with_capacity(1 << 20, f),
            lines: 0,
        }
    }

    pub fn emit(&mut self, v: Value) {
        serde_json::to_writer(&mut self.out, &v).expect("write trace");
        self.out.write_all(b"\n").expect("write trace");
        self.lines += 1;
    }

    pub fn finish(mut self) -> usize {
        self.out.flush().expect("flush");
        self.lines
    }
}

static JOURNAL: std::sync::Mutex<Option<std::fs::File>> = std::sync::Mutex::new(None);

/// Opens the crash journal: before every call into the code under test the harness
/// records which call it is about to make, so that a process abort (allocation failure,
/// stack overflow) or a hang can be attributed to an input instead of being a tool error.
pub fn journal_open(path: &str) {
    *JOURNAL.lock().unwrap() = std::fs::File::create(path).ok();
}

pub fn journal(label: &str, input: &[u8]) {
    use std::io::Seek;
    use std::io::Write;
    if let Some(f) = JOURNAL.lock().unwrap().as_mut() {
        let mut line = format!("{label} ");
        for b in input.iter().take(4096) {
            line.push_str(&format!("{b:02x}"));
        }
        line.push('\n');
        let _ = f.seek(std::io::SeekFrom::Start(0));
        let _ = f.write_all(line.as_bytes());
        let _ = f.set_len(line.len() as u64);
    }
}

pub fn silence_panics() {
    std::panic::set_hook(Box::new(|_| {}));
}

pub struct Measured<T> {
    pub value: Option<T>,
    pub panicked: bool,
    pub alloc: usize,
    pub micros: u128,
}

/// Runs `f`, recording panics (as data), bytes allocated on this thread and wall time.
pub fn measure<T>(f: impl FnOnce() -> T) -> Measured<T> {
    LIB_ALLOC.with(|a| a.set(0));
    let t0 = std::time::Instant::now();
    let r = std::panic::catch_unwind(AssertUnwindSafe(f));
    let micros = t0.elapsed().as_micros();
    let alloc = LIB_ALLOC.with(|a| a.get());
    match r {
        Ok(v) => Measured {
            value: Some(v),
            panicked: false,
            alloc,
            micros,
        },
        Err(_) => Measured {
            value: None,
            panicked: true,
            alloc,
            micros,
        },
    }
}

/// Small deterministic PRNG (splitmix64) so that runs depend only on VERIF_SEED.
#[derive(Clone)]
pub struct Rng(pub u64);

impl Rng {
    pub fn new(seed: u64) -> Self {
        Self(seed ^ 0x9e37_79b9_7f4a_7c15)
    }
    pub fn next(&mut self) -> u64 {
        self.0 = self.0.wrapping_add(0x9e37_79b9_7f4a_7c15);
        let mut z = self.0;
        z = (z ^ (z >> 30)).wrapping_mul(0xbf58_476d_1ce4_e5b9);
        z = (z ^ (z >> 27)).wrapping_mul(0x94d0_49bb_1331_11eb);
        z ^ (z >> 31)
    }
    pub fn below(&mut self, n: u64) -> u64 {
        if n == 0 {
            0
        } else {
            self.next() % n
        }
    }
    pub fn byte(&mut self) -> u8 {
        self.next() as u8
    }
    pub fn pick<'a, T>(&mut self, xs: &'a [T]) -> &'a T {
        &xs[self.below(xs.len() as u64) as usize]
    }
}

// ------------------------------------------------------------------ mechanism events (hooks)

/// Installs the sink for the driver's verification hooks (`wtransport::verif`, present when
/// /repo carries them: the `mech` feature is switched on by the build scripts in that case):
/// every event becomes one ndjson line `{"c": connection, "seq": n, "ev": name, fields...}` in
/// `path`; `seq` is taken under the same mutex that orders the lines.
#[cfg(feature = "mech")]
pub fn mech_open(path: &str) {
    use std::io::Write;
    let f = std::fs::File::create(path).expect("mech log");
    let state = std::sync::Mutex::new((std::io::BufWriter::new(f), 0u64));
    wtransport::verif::install(Box::new(move |conn, ev, fields| {
        let mut g = state.lock().unwrap_or_else(|e| e.into_inner());
        g.1 += 1;
        let seq = g.1;
        let mut line = format!("{{\"c\":{conn},\"seq\":{seq},\"ev\":\"{ev}\"");
        for (k, v) in fields {
            line.push_str(&format!(",\"{k}\":{v}"));
        }
        line.push_str("}\n");
        let _ = g.0.write_all(line.as_bytes());
        let _ = g.0.flush();
    }));
}

#[cfg(not(feature = "mech"))]
pub fn mech_open(_path: &str) {}
