//! Pinning (C10), identities / PEM / digests (C19) and configuration (C20): drives the
//! real code over case tables and writes what it did as ndjson events.
#![allow(dead_code)]

use crate::e2e::raw_client_config;
use crate::e2e::raw_server_config;
use crate::trace::bytes;
use crate::trace::measure;
use crate::trace::v62;
use crate::trace::Rng;
use crate::trace::Tracer;
use rustls::client::danger::ServerCertVerifier;
use serde_json::json;
use serde_json::Map;
use serde_json::Value;
use std::net::SocketAddr;
use std::time::Duration;
use wtransport::config::IpBindConfig;
use wtransport::config::Ipv6DualStackConfig;
use wtransport::quinn;
use wtransport::tls::client::ServerHashVerification;
use wtransport::tls::Certificate;
use wtransport::tls::CertificateChain;
use wtransport::tls::PrivateKey;
use wtransport::tls::Sha256Digest;
use wtransport::tls::Sha256DigestFmt;
use wtransport::ClientConfig;
use wtransport::Endpoint;
use wtransport::Identity;
use wtransport::ServerConfig;
use x509_parser::prelude::FromDer;
use x509_parser::prelude::GeneralName;
use x509_parser::prelude::X509Certificate;

fn put(m: &mut Map<String, Value>, k: &str, v: Value) {
    m.insert(k.to_string(), v);
}

fn emit(t: &mut Tracer, ev: &str, mut m: Map<String, Value>, panicked: bool) {
    put(&mut m, "ev", json!(ev));
    put(&mut m, "panic", json!(panicked));
    t.emit(Value::Object(m));
}

pub const T0: i64 = 1_790_000_000; // notBefore of minted certificates (2026-09)

pub fn mint(key: &str, not_before: i64, not_after: i64, sans: Vec<String>) -> (Vec<u8>, Vec<u8>) {
    let alg: &'static rcgen::SignatureAlgorithm = match key {
        "p384" => &rcgen::PKCS_ECDSA_P384_SHA384,
        "ed25519" => &rcgen::PKCS_ED25519,
        _ => &rcgen::PKCS_ECDSA_P256_SHA256,
    };
    let kp = rcgen::KeyPair::generate_for(alg).expect("keypair");
    let mut params = rcgen::CertificateParams::new(sans).expect("params");
    params.not_before = time::OffsetDateTime::from_unix_timestamp(not_before).unwrap();
    params.not_after = time::OffsetDateTime::from_unix_timestamp(not_after).unwrap();
    let cert = params.self_signed(&kp).expect("self signed");
    (cert.der().to_vec(), kp.serialize_der())
}

fn verify_at(v: &ServerHashVerification, der: &[u8], now: i64) -> Result<(), String> {
    let cert = rustls_pki_types::CertificateDer::from(der.to_vec());
    let name = rustls_pki_types::ServerName::try_from("localhost").unwrap();
    let now = rustls_pki_types::UnixTime::since_unix_epoch(Duration::from_secs(now as u64));
    match v.verify_server_cert(&cert, &[], &name, &[], now) {
        Ok(_) => Ok(()),
        Err(rustls::Error::InvalidCertificate(e)) => Err(format!("{e:?}")),
        Err(e) => Err(format!("{e:?}")),
    }
}

/// C10: the verifier on the full table of (now, period, key, hash set).
pub fn suite_pin(t: &mut Tracer, thorough: bool, seed: u64) {
    let mut r = Rng::new(seed ^ 0x10);
    let d14: i64 = 1_209_600;
    let periods: Vec<i64> = if thorough {
        vec![1, 2, 86_400, d14 - 1, d14, d14 + 1, 2 * d14, 315_360_000]
    } else {
        vec![1, d14 - 1, d14, d14 + 1, 315_360_000]
    };
    let other = Sha256Digest::new([7u8; 32]);
    for key in ["p256", "p384", "ed25519"] {
        for period in &periods {
            let (der, _k) = mint(key, T0, T0 + period, vec!["localhost".into()]);
            let own = Certificate::from_der(der.clone()).expect("cert").hash();
            let mut nows: Vec<i64> = vec![-1, 0, 1, period - 1, *period, period + 1, -100_000];
            nows.push(r.below(*period as u64 + 1) as i64);
            nows.sort();
            nows.dedup();
            for now in nows {
                for hs in ["none", "own", "other", "many_own", "many"] {
                    let hashes: Vec<Sha256Digest> = match hs {
                        "none" => vec![],
                        "own" => vec![own.clone()],
                        "other" => vec![other.clone()],
                        "many_own" => {
                            let mut v: Vec<Sha256Digest> = (0..20u8).map(|i| Sha256Digest::new([i; 32])).collect();
                            v.insert((r.below(20)) as usize, own.clone());
                            v
                        }
                        _ => (0..20u8).map(|i| Sha256Digest::new([i; 32])).collect(),
                    };
                    let meas = measure(|| {
                        let v = ServerHashVerification::new(hashes.clone());
                        verify_at(&v, &der, T0 + now)
                    });
                    let mut m = Map::new();
                    put(&mut m, "now", json!(now));
                    put(&mut m, "period", json!(period));
                    put(&mut m, "key", json!(key));
                    put(&mut m, "hashes", json!(hs));
                    match &meas.value {
                        Some(Ok(())) => put(&mut m, "res", json!("ok")),
                        Some(Err(e)) => {
                            put(&mut m, "res", json!("err"));
                            put(&mut m, "err", json!(e));
                        }
                        None => put(&mut m, "res", json!("panic")),
                    }
                    emit(t, "pin", m, meas.panicked);
                }
            }
        }
    }
    // a flipped byte: the pinned hash no longer matches (or the DER no longer parses)
    let (der, _k) = mint("p256", T0, T0 + 1000, vec!["localhost".into()]);
    let own = Certificate::from_der(der.clone()).expect("cert").hash();
    for pos in [0usize, 10, der.len() / 2, der.len() - 1] {
        let mut bad = der.clone();
        bad[pos] ^= 0x01;
        let meas = measure(|| verify_at(&ServerHashVerification::new(vec![own.clone()]), &bad, T0 + 10));
        let mut m = Map::new();
        put(&mut m, "pos", json!(pos));
        put(
            &mut m,
            "res",
            json!(match &meas.value {
                Some(Ok(())) => "ok",
                Some(Err(_)) => "err",
                None => "panic",
            }),
        );
        emit(t, "pin_flip", m, meas.panicked);
    }
    // -- only the leaf counts: a pinned certificate sent as an *intermediate* vouches for nothing
    {
        let d = 86_400i64;
        let (leaf_a, _) = mint("p256", T0, T0 + 5 * d, vec!["localhost".into()]);
        let (leaf_b, _) = mint("p256", T0, T0 + 5 * d, vec!["localhost".into()]);
        let hash_a = Certificate::from_der(leaf_a.clone()).expect("cert").hash();
        for (name, leaf, inter, expect_pinned) in [
            ("pinned_leaf_other_intermediate", &leaf_a, vec![leaf_b.clone()], true),
            ("other_leaf_pinned_intermediate", &leaf_b, vec![leaf_a.clone()], false),
            ("other_leaf_pinned_twice", &leaf_b, vec![leaf_a.clone(), leaf_a.clone()], false),
            ("pinned_leaf_pinned_intermediate", &leaf_a, vec![leaf_a.clone()], true),
        ] {
            let meas = measure(|| {
                let v = ServerHashVerification::new(vec![hash_a.clone()]);
                let cert = rustls_pki_types::CertificateDer::from(leaf.to_vec());
                let inters: Vec<rustls_pki_types::CertificateDer> =
                    inter.iter().map(|x| rustls_pki_types::CertificateDer::from(x.clone())).collect();
                let name = rustls_pki_types::ServerName::try_from("localhost").unwrap();
                let now = rustls_pki_types::UnixTime::since_unix_epoch(Duration::from_secs((T0 + d) as u64));
                v.verify_server_cert(&cert, &inters, &name, &[], now).is_ok()
            });
            let mut m = Map::new();
            put(&mut m, "case", json!(name));
            put(&mut m, "leaf_pinned", json!(expect_pinned));   // (an input: which certificate's hash was configured)
            put(&mut m, "res", json!(match meas.value { Some(true) => "ok", Some(false) => "err", None => "panic" }));
            emit(t, "pin_chain", m, meas.panicked);
        }
    }
    // -- the default policy trusts the platform's roots, not whatever the environment names
    {
        let rt = tokio::runtime::Builder::new_multi_thread().worker_threads(2).enable_all().build().unwrap();
        let scratch = std::env::temp_dir().join(format!("wtv-pin-{}", std::process::id()));
        let _ = std::fs::create_dir_all(&scratch);
        let mut m = Map::new();
        for (k, v) in rt.block_on(crate::e2e::measure_native_with_env(scratch.to_str().unwrap_or("/tmp"))) {
            put(&mut m, &k, v);
        }
        let _ = std::fs::remove_dir_all(&scratch);
        emit(t, "pin_env", m, false);
    }
    // -- the pin is checked against the clock on every connection of an endpoint, not only the first
    {
        let rt = tokio::runtime::Builder::new_multi_thread().worker_threads(2).enable_all().build().unwrap();
        let mut m = Map::new();
        for (k, v) in rt.block_on(crate::e2e::measure_reconnect_after_expiry(4)) {
            put(&mut m, &k, v);
        }
        emit(t, "pin_reconnect", m, false);
    }
}

// ------------------------------------------------------------------------- C19

fn san_json(der: &[u8]) -> (Value, Map<String, Value>) {
    let mut m = Map::new();
    let (_, x) = X509Certificate::from_der(der).expect("x509");
    put(&mut m, "version", json!(x.version().0));
    let alg = x.public_key().algorithm.algorithm.to_id_string();
    let curve = x
        .public_key()
        .algorithm
        .parameters
        .as_ref()
        .and_then(|p| p.as_oid().ok())
        .map(|o| o.to_id_string())
        .unwrap_or_default();
    put(&mut m, "key_alg", json!(alg));
    put(&mut m, "curve", json!(curve));
    put(&mut m, "nb", json!(x.validity().not_before.timestamp()));
    put(&mut m, "na", json!(x.validity().not_after.timestamp()));
    let mut sans = Vec::new();
    if let Ok(Some(ext)) = x.subject_alternative_name() {
        for g in &ext.value.general_names {
            match g {
                GeneralName::DNSName(d) => sans.push(json!(["dns", bytes(d.as_bytes())])),
                GeneralName::IPAddress(b) => sans.push(json!(["ip", bytes(b)])),
                other => sans.push(json!(["other", bytes(format!("{other:?}").as_bytes())])),
            }
        }
    }
    (Value::Array(sans), m)
}

fn unix_now() -> i64 {
    time::OffsetDateTime::now_utc().unix_timestamp()
}

pub fn suite_ident(t: &mut Tracer, thorough: bool, seed: u64, scratch: &str) {
    let mut r = Rng::new(seed ^ 0x19);
    let rt = tokio::runtime::Builder::new_current_thread().enable_all().build().unwrap();
    // -- generated identities
    let san_lists: Vec<Vec<&str>> = vec![
        vec!["localhost"],
        vec!["localhost", "127.0.0.1", "::1"],
        vec!["a.b-c.example", "10.1.2.3"],
        vec!["2001:db8::1", "fe80::1", "example.org"],
        vec!["0.0.0.0", "255.255.255.255"],
        vec![],
        vec!["xn--bcher-kva.example"],
        vec!["b\u{fc}cher.example"],
        vec!["localhost", "caf\u{e9}"],
        vec!["*.example.com"],
        vec!["1.2.3", "1.2.3.4.5", "256.1.1.1", "01.2.3.4"],
    ];
    let variants: Vec<&str> = if thorough {
        vec!["self_signed", "days1", "days14", "days15", "days365", "period", "offset", "nb_days14", "nb_days3"]
    } else {
        vec!["self_signed", "days14", "days15", "period", "nb_days14", "nb_days3"]
    };
    for sans in &san_lists {
        for variant in &variants {
            let before = unix_now();
            let meas = measure(|| {
                let b = Identity::self_signed_builder().subject_alt_names(sans.iter());
                match *variant {
                    "self_signed" => Identity::self_signed(sans.iter()),
                    "days1" => b.from_now_utc().validity_days(1).build(),
                    "days14" => b.from_now_utc().validity_days(14).build(),
                    "days15" => b.from_now_utc().validity_days(15).build(),
                    "days365" => b.from_now_utc().validity_days(365).build(),
                    // the period counts from not_before, wherever that is relative to now
                    "nb_days14" => b
                        .not_before(time::OffsetDateTime::from_unix_timestamp(T0 - 5 * 86400).unwrap())
                        .validity_days(14)
                        .build(),
                    "nb_days3" => b
                        .not_before(time::OffsetDateTime::from_unix_timestamp(T0 + 40 * 86400).unwrap())
                        .validity_days(3)
                        .build(),
                    "period" => b
                        .validity_period(
                            time::OffsetDateTime::from_unix_timestamp(T0).unwrap(),
                            time::OffsetDateTime::from_unix_timestamp(T0 + 777).unwrap(),
                        )
                        .build(),
                    _ => b
                        .not_before(time::OffsetDateTime::from_unix_timestamp(T0).unwrap())
                        .offset_from_not_before(time::Duration::seconds(5000))
                        .build(),
                }
            });
            let after = unix_now();
            let mut m = Map::new();
            put(
                &mut m,
                "sans_in",
                Value::Array(sans.iter().map(|s| bytes(s.as_bytes())).collect()),
            );
            put(&mut m, "variant", json!(variant));
            put(&mut m, "t_before", json!(before));
            put(&mut m, "t_after", json!(after));
            match &meas.value {
                Some(Ok(id)) => {
                    put(&mut m, "res", json!("ok"));
                    let chain = id.certificate_chain().as_slice();
                    put(&mut m, "chain_len", json!(chain.len()));
                    let der = chain[0].der().to_vec();
                    let (s, fields) = san_json(&der);
                    put(&mut m, "sans_out", s);
                    for (k, v) in fields {
                        m.insert(k, v);
                    }
                    // accepted by pinning configured with its own hash, now
                    let own = chain[0].hash();
                    let nb = m["nb"].as_i64().unwrap();
                    let pin = verify_at(&ServerHashVerification::new(vec![own]), &der, nb.max(before));
                    put(&mut m, "pin_own", json!(pin.is_ok()));
                    // the private key belongs to the certificate: a TLS server config can be built
                    let ok = std::panic::catch_unwind(std::panic::AssertUnwindSafe(|| {
                        let _ = wtransport::tls::server::build_default_tls_config(id.clone_identity());
                    }))
                    .is_ok();
                    put(&mut m, "key_matches", json!(ok));
                }
                Some(Err(_)) => put(&mut m, "res", json!("err")),
                None => put(&mut m, "res", json!("panic")),
            }
            emit(t, "selfsigned", m, meas.panicked);
        }
    }
    // -- PEM round trips
    std::fs::create_dir_all(scratch).expect("scratch");
    let mut certs: Vec<Certificate> = Vec::new();
    let mut keys: Vec<Vec<u8>> = Vec::new();
    for (i, key) in ["p256", "p384", "ed25519", "p256"].iter().enumerate() {
        let (der, k) = mint(key, T0, T0 + 1000 + i as i64, vec![format!("h{i}.example")]);
        certs.push(Certificate::from_der(der).expect("cert"));
        keys.push(k);
    }
    for n in 0..=certs.len() {
        let chain = CertificateChain::new(certs[..n].iter().map(|c| Certificate::from_der(c.der().to_vec()).unwrap()).collect());
        let path = format!("{scratch}/chain{n}.pem");
        let meas = measure(|| {
            rt.block_on(async {
                chain.store_pemfile(&path).await.map_err(|e| e.to_string())?;
                CertificateChain::load_pemfile(&path).await.map_err(|e| e.to_string())
            })
        });
        let mut m = Map::new();
        put(&mut m, "what", json!("chain"));
        put(&mut m, "n", json!(n));
        match &meas.value {
            Some(Ok(back)) => {
                put(&mut m, "res", json!("ok"));
                put(&mut m, "n_back", json!(back.as_slice().len()));
                let same = back.as_slice().len() == n
                    && back.as_slice().iter().zip(certs[..n].iter()).all(|(a, b)| a.der() == b.der());
                put(&mut m, "same", json!(same));
            }
            Some(Err(e)) => {
                put(&mut m, "res", json!("err"));
                put(&mut m, "text", json!(e));
            }
            None => put(&mut m, "res", json!("panic")),
        }
        emit(t, "pem_rt", m, meas.panicked);
    }
    // a file is replaced, not patched: a long chain, then a shorter one / a single certificate at the same path
    for (first, second) in [(4usize, 1usize), (3, 0), (2, 1), (1, 4)] {
        let path = format!("{scratch}/over{first}{second}.pem");
        let mk = |n: usize| CertificateChain::new(certs[..n].iter().map(|c| Certificate::from_der(c.der().to_vec()).unwrap()).collect());
        let (a, b) = (mk(first), mk(second));
        let meas = measure(|| {
            rt.block_on(async {
                a.store_pemfile(&path).await.map_err(|e| e.to_string())?;
                b.store_pemfile(&path).await.map_err(|e| e.to_string())?;
                CertificateChain::load_pemfile(&path).await.map_err(|e| e.to_string())
            })
        });
        let mut m = Map::new();
        put(&mut m, "what", json!("chain_over"));
        put(&mut m, "n", json!(second));
        match &meas.value {
            Some(Ok(back)) => {
                put(&mut m, "res", json!("ok"));
                put(&mut m, "n_back", json!(back.as_slice().len()));
                let same = back.as_slice().len() == second
                    && back.as_slice().iter().zip(certs[..second].iter()).all(|(x, y)| x.der() == y.der());
                put(&mut m, "same", json!(same));
            }
            Some(Err(e)) => {
                put(&mut m, "res", json!("err"));
                put(&mut m, "text", json!(e));
            }
            None => put(&mut m, "res", json!("panic")),
        }
        emit(t, "pem_rt", m, meas.panicked);
    }
    {
        // a single certificate stored over a chain file
        let path = format!("{scratch}/over_cert.pem");
        let a = CertificateChain::new(certs.iter().map(|c| Certificate::from_der(c.der().to_vec()).unwrap()).collect());
        let meas = measure(|| {
            rt.block_on(async {
                a.store_pemfile(&path).await.map_err(|e| e.to_string())?;
                certs[0].store_pemfile(&path).await.map_err(|e| e.to_string())?;
                CertificateChain::load_pemfile(&path).await.map_err(|e| e.to_string())
            })
        });
        let mut m = Map::new();
        put(&mut m, "what", json!("cert_over_chain"));
        put(&mut m, "n", json!(1));
        match &meas.value {
            Some(Ok(back)) => {
                put(&mut m, "res", json!("ok"));
                put(&mut m, "n_back", json!(back.as_slice().len()));
                put(&mut m, "same", json!(back.as_slice().len() == 1 && back.as_slice()[0].der() == certs[0].der()));
            }
            Some(Err(e)) => {
                put(&mut m, "res", json!("err"));
                put(&mut m, "text", json!(e));
            }
            None => put(&mut m, "res", json!("panic")),
        }
        emit(t, "pem_rt", m, meas.panicked);
    }
    for (i, c) in certs.iter().enumerate() {
        let path = format!("{scratch}/cert{i}.pem");
        let meas = measure(|| {
            rt.block_on(async {
                c.store_pemfile(&path).await.map_err(|e| e.to_string())?;
                Certificate::load_pemfile(&path).await.map_err(|e| e.to_string())
            })
        });
        let mut m = Map::new();
        put(&mut m, "what", json!("cert"));
        put(&mut m, "n", json!(1));
        match &meas.value {
            Some(Ok(back)) => {
                put(&mut m, "res", json!("ok"));
                put(&mut m, "n_back", json!(1));
                put(&mut m, "same", json!(back.der() == c.der() && back.hash() == c.hash()));
            }
            Some(Err(e)) => {
                put(&mut m, "res", json!("err"));
                put(&mut m, "text", json!(e));
            }
            None => put(&mut m, "res", json!("panic")),
        }
        emit(t, "pem_rt", m, meas.panicked);
        let key = PrivateKey::from_der_pkcs8(keys[i].clone());
        let path = format!("{scratch}/key{i}.pem");
        let meas = measure(|| {
            rt.block_on(async {
                key.store_secret_pemfile(&path).await.map_err(|e| e.to_string())?;
                PrivateKey::load_pemfile(&path).await.map_err(|e| e.to_string())
            })
        });
        let mut m = Map::new();
        put(&mut m, "what", json!("key"));
        put(&mut m, "n", json!(1));
        match &meas.value {
            Some(Ok(back)) => {
                put(&mut m, "res", json!("ok"));
                put(&mut m, "n_back", json!(1));
                put(&mut m, "same", json!(back.secret_der() == key.secret_der()));
            }
            Some(Err(e)) => {
                put(&mut m, "res", json!("err"));
                put(&mut m, "text", json!(e));
            }
            None => put(&mut m, "res", json!("panic")),
        }
        emit(t, "pem_rt", m, meas.panicked);
    }
    // identity files together
    {
        let id = Identity::self_signed(["localhost"]).expect("id");
        let cp = format!("{scratch}/id_cert.pem");
        let kp = format!("{scratch}/id_key.pem");
        let meas = measure(|| {
            rt.block_on(async {
                id.certificate_chain().store_pemfile(&cp).await.map_err(|e| e.to_string())?;
                id.private_key().store_secret_pemfile(&kp).await.map_err(|e| e.to_string())?;
                Identity::load_pemfiles(&cp, &kp).await.map_err(|e| e.to_string())
            })
        });
        let mut m = Map::new();
        put(&mut m, "what", json!("identity"));
        put(&mut m, "n", json!(1));
        match &meas.value {
            Some(Ok(back)) => {
                put(&mut m, "res", json!("ok"));
                put(&mut m, "n_back", json!(back.certificate_chain().as_slice().len()));
                put(
                    &mut m,
                    "same",
                    json!(back.certificate_chain().as_slice()[0].der() == id.certificate_chain().as_slice()[0].der()
                        && back.private_key().secret_der() == id.private_key().secret_der()),
                );
            }
            Some(Err(e)) => {
                put(&mut m, "res", json!("err"));
                put(&mut m, "text", json!(e));
            }
            None => put(&mut m, "res", json!("panic")),
        }
        emit(t, "pem_rt", m, meas.panicked);
    }
    // an identity whose key file is in the SEC1 ("EC PRIVATE KEY") form: loaded, cloned, and the clone
    // still usable as a TLS identity (the key's encoding kind travels with it)
    {
        let id = Identity::self_signed(["localhost"]).expect("id");
        let cp = format!("{scratch}/sec1_cert.pem");
        let kp = format!("{scratch}/sec1_key.pem");
        let sec1 = pkcs8_inner_key(id.private_key().secret_der());
        let meas = measure(|| {
            rt.block_on(async {
                let sec1 = sec1.clone().ok_or_else(|| "no inner key".to_string())?;
                id.certificate_chain().store_pemfile(&cp).await.map_err(|e| e.to_string())?;
                std::fs::write(&kp, pem_of("EC PRIVATE KEY", &sec1)).map_err(|e| e.to_string())?;
                let back = Identity::load_pemfiles(&cp, &kp).await.map_err(|e| e.to_string())?;
                let clone = back.clone_identity();
                let usable = std::panic::catch_unwind(std::panic::AssertUnwindSafe(|| {
                    let _ = wtransport::tls::server::build_default_tls_config(clone.clone_identity());
                }))
                .is_ok();
                let same_bytes = clone.private_key().secret_der() == back.private_key().secret_der()
                    && back.private_key().secret_der() == sec1.as_slice();
                Ok::<_, String>((back.certificate_chain().as_slice().len(), same_bytes && usable))
            })
        });
        let mut m = Map::new();
        put(&mut m, "what", json!("identity_sec1_clone"));
        put(&mut m, "n", json!(1));
        match &meas.value {
            Some(Ok((n, same))) => {
                put(&mut m, "res", json!("ok"));
                put(&mut m, "n_back", json!(n));
                put(&mut m, "same", json!(same));
            }
            Some(Err(e)) => {
                put(&mut m, "res", json!("err"));
                put(&mut m, "text", json!(e));
            }
            None => put(&mut m, "res", json!("panic")),
        }
        emit(t, "pem_rt", m, meas.panicked);
    }
    // -- corrupt PEM / DER
    let good_pem = certs[0].to_pem();
    let good_key_pem = PrivateKey::from_der_pkcs8(keys[0].clone()).to_secret_pem();
    let mut corrupt: Vec<(&str, &str, Vec<u8>)> = vec![
        ("cert", "empty", vec![]),
        ("cert", "garbage", (0..300).map(|_| r.byte()).collect()),
        ("cert", "wrong_label", good_pem.replace("CERTIFICATE", "PRIVATE KEY").into_bytes()),
        ("cert", "key_as_cert", good_key_pem.clone().into_bytes()),
        ("cert", "truncated_b64", good_pem.as_bytes()[..good_pem.len() / 2].to_vec()),
        ("cert", "no_end", good_pem.replace("-----END CERTIFICATE-----", "").into_bytes()),
        ("cert", "bad_b64", good_pem.replace('A', "!").into_bytes()),
        ("cert", "der_not_x509", pem_of("CERTIFICATE", &[0x30, 0x03, 0x02, 0x01, 0x01])),
        ("cert", "der_empty", pem_of("CERTIFICATE", &[])),
        ("key", "empty", vec![]),
        ("key", "cert_as_key", good_pem.clone().into_bytes()),
        ("key", "garbage", (0..100).map(|_| r.byte()).collect()),
        ("chain", "empty", vec![]),
        ("chain", "second_bad", format!("{}{}", good_pem, String::from_utf8(pem_of("CERTIFICATE", &[0x30, 0x00])).unwrap()).into_bytes()),
        ("chain", "garbage", (0..200).map(|_| r.byte()).collect()),
    ];
    let extra = if thorough { 60 } else { 12 };
    for _ in 0..extra {
        let mut b = good_pem.clone().into_bytes();
        let pos = r.below(b.len() as u64) as usize;
        b[pos] = r.byte();
        corrupt.push(("cert", "random_byte", b));
    }
    for (i, (what, kind, data)) in corrupt.iter().enumerate() {
        let path = format!("{scratch}/bad{i}.pem");
        std::fs::write(&path, data).expect("write");
        let meas = measure(|| {
            rt.block_on(async {
                match *what {
                    "cert" => Certificate::load_pemfile(&path).await.map(|_| ()).map_err(|e| e.to_string()),
                    "key" => PrivateKey::load_pemfile(&path).await.map(|_| ()).map_err(|e| e.to_string()),
                    _ => CertificateChain::load_pemfile(&path).await.map(|c| {
                        let _ = c.as_slice().len();
                    }).map_err(|e| e.to_string()),
                }
            })
        });
        let mut m = Map::new();
        put(&mut m, "what", json!(what));
        put(&mut m, "kind", json!(kind));
        put(
            &mut m,
            "res",
            json!(match &meas.value {
                Some(Ok(())) => "ok",
                Some(Err(_)) => "err",
                None => "panic",
            }),
        );
        emit(t, "pem_bad", m, meas.panicked);
    }
    for (kind, der) in [
        ("empty", vec![]),
        ("short", vec![0x30]),
        ("not_x509", vec![0x30, 0x03, 0x02, 0x01, 0x01]),
        ("truncated", certs[0].der()[..certs[0].der().len() / 2].to_vec()),
        ("trailing", {
            let mut d = certs[0].der().to_vec();
            d.extend_from_slice(&[0, 1, 2]);
            d
        }),
        ("good", certs[0].der().to_vec()),
    ] {
        let meas = measure(|| Certificate::from_der(der.clone()).map(|c| c.der().to_vec() == der));
        let mut m = Map::new();
        put(&mut m, "kind", json!(kind));
        put(
            &mut m,
            "res",
            json!(match &meas.value {
                Some(Ok(true)) => "ok",
                Some(Ok(false)) => "ok_changed",
                Some(Err(_)) => "err",
                None => "panic",
            }),
        );
        emit(t, "der_bad", m, meas.panicked);
    }
    // -- digests
    let mut digests: Vec<[u8; 32]> = vec![[0u8; 32], [0xff; 32]];
    for b in 0..=255u8 {
        let mut d = [0u8; 32];
        d[(b as usize) % 32] = b;
        d[31 - (b as usize) % 32] ^= b;
        digests.push(d);
    }
    let nrand = if thorough { 20_000 } else { 1_500 };
    for _ in 0..nrand {
        let mut d = [0u8; 32];
        for x in d.iter_mut() {
            *x = r.byte();
        }
        digests.push(d);
    }
    for d in &digests {
        for (fname, f) in [("hex", Sha256DigestFmt::DottedHex), ("arr", Sha256DigestFmt::BytesArray)] {
            let meas = measure(|| {
                let dg = Sha256Digest::new(*d);
                let text = dg.fmt(f);
                let back = Sha256Digest::from_str_fmt(&text, f).ok().map(|x| *x.as_ref());
                let auto: Option<[u8; 32]> = text.parse::<Sha256Digest>().ok().map(|x| *x.as_ref());
                let display = dg.to_string();
                (text, back, auto, display)
            });
            let mut m = Map::new();
            put(&mut m, "bytes", bytes(d));
            put(&mut m, "fmt", json!(fname));
            if let Some((text, back, auto, display)) = &meas.value {
                put(&mut m, "res", json!("ok"));
                put(&mut m, "text", bytes(text.as_bytes()));
                put(&mut m, "back", back.map(|b| bytes(&b)).unwrap_or(json!([])));
                put(&mut m, "auto", auto.map(|b| bytes(&b)).unwrap_or(json!([])));
                put(&mut m, "display", bytes(display.as_bytes()));
            } else {
                put(&mut m, "res", json!("panic"));
            }
            emit(t, "digest", m, meas.panicked);
        }
    }
    let bad_digests = [
        "", " ", ":", "[]", "[", "]", "00", "zz:zz", "[1,2,3]", "[256,0]", "00:11", "-1", "0x00:0x01",
        "[1, 2, 3, 4, 5, 6, 7, 8, 9, 10, 11, 12, 13, 14, 15, 16, 17, 18, 19, 20, 21, 22, 23, 24, 25, 26, 27, 28, 29, 30, 31]",
        "00:00:00:00:00:00:00:00:00:00:00:00:00:00:00:00:00:00:00:00:00:00:00:00:00:00:00:00:00:00:00:00:00",
        "00:00:00:00:00:00:00:00:00:00:00:00:00:00:00:00:00:00:00:00:00:00:00:00:00:00:00:00:00:00:00:g0",
        "\u{ff10}\u{ff10}:00", "[1,,2]", "1e2", "+5:+5",
    ];
    // texts with the right number of hex digits but the wrong structure
    let canon: String = (0..32).map(|_| "ab").collect::<Vec<_>>().join(":");
    let mut structural: Vec<String> = vec![
        (0..16).map(|_| "abab").collect::<Vec<_>>().join(":"),      // 16 groups of four digits
        "ab".repeat(32),                                            // no separator at all
        format!("aba:b{}", &canon[5..]),                            // first separator one nibble to the right
        format!("a:bab{}", &canon[5..]),                            // ... to the left
        canon.replacen("ab", "100", 1),                             // a group above 0xff
        canon.replacen("ab", "a\u{e9}", 1),                         // a multi-byte character inside a group
        canon.replacen("ab:", "\u{e9}:", 1),
        format!("\u{20ac}{}", &canon[1..]),
        canon.replacen(":", "::", 1),                               // an empty group
        canon.replacen(":", ";", 1),
        format!("{canon}:"),
        format!(":{canon}"),
        canon.replace(':', ""),
        canon.replace(':', " "),
        (0..32).map(|i| format!("{i}")).collect::<Vec<_>>().join(", "),   // byte array without brackets is fine? no: see judge
    ];
    structural.pop(); // (the bracket-less array is accepted by the lenient array parser: not a malformed text)
    let bad_owned: Vec<String> = bad_digests.iter().map(|s| s.to_string()).chain(structural).collect();
    for s in bad_owned.iter().map(|s| s.as_str()) {
        let meas = measure(|| {
            (
                Sha256Digest::from_str_fmt(s, Sha256DigestFmt::DottedHex).is_ok(),
                Sha256Digest::from_str_fmt(s, Sha256DigestFmt::BytesArray).is_ok(),
                s.parse::<Sha256Digest>().is_ok(),
            )
        });
        let mut m = Map::new();
        put(&mut m, "text", bytes(s.as_bytes()));
        match &meas.value {
            Some((a, b, c)) => {
                put(&mut m, "res", json!("ok"));
                put(&mut m, "hex_ok", json!(a));
                put(&mut m, "arr_ok", json!(b));
                put(&mut m, "auto_ok", json!(c));
            }
            None => put(&mut m, "res", json!("panic")),
        }
        emit(t, "digest_bad", m, meas.panicked);
    }
}

/// The privateKey OCTET STRING of a PKCS#8 PrivateKeyInfo (for an EC key: the SEC1 ECPrivateKey).
fn pkcs8_inner_key(der: &[u8]) -> Option<Vec<u8>> {
    fn tlv(b: &[u8]) -> Option<(u8, &[u8], &[u8])> {
        let tag = *b.first()?;
        let l0 = *b.get(1)? as usize;
        let (len, hdr) = if l0 < 0x80 {
            (l0, 2)
        } else {
            let n = l0 & 0x7f;
            let mut len = 0usize;
            for i in 0..n {
                len = (len << 8) | *b.get(2 + i)? as usize;
            }
            (len, 2 + n)
        };
        Some((tag, b.get(hdr..hdr + len)?, b.get(hdr + len..)?))
    }
    let (t, body, _) = tlv(der)?;
    if t != 0x30 {
        return None;
    }
    let (_, _version, rest) = tlv(body)?;
    let (_, _alg, rest) = tlv(rest)?;
    let (t, key, _) = tlv(rest)?;
    if t != 0x04 {
        return None;
    }
    Some(key.to_vec())
}

fn pem_of(label: &str, der: &[u8]) -> Vec<u8> {
    // minimal base64 (standard alphabet, padded) - only used to build corrupt inputs
    const T: &[u8; 64] = b"ABCDEFGHIJKLMNOPQRSTUVWXYZabcdefghijklmnopqrstuvwxyz0123456789+/";
    let mut out = format!("-----BEGIN {label}-----\n").into_bytes();
    for chunk in der.chunks(3) {
        let b = [chunk[0], *chunk.get(1).unwrap_or(&0), *chunk.get(2).unwrap_or(&0)];
        out.push(T[(b[0] >> 2) as usize]);
        out.push(T[(((b[0] & 3) << 4) | (b[1] >> 4)) as usize]);
        out.push(if chunk.len() > 1 { T[(((b[1] & 15) << 2) | (b[2] >> 6)) as usize] } else { b'=' });
        out.push(if chunk.len() > 2 { T[(b[2] & 63) as usize] } else { b'=' });
    }
    out.extend_from_slice(format!("\n-----END {label}-----\n").as_bytes());
    out
}

// ------------------------------------------------------------------------- C20

async fn raw_probe(addr: SocketAddr, alpn: &str, ms: u64) -> (bool, Vec<u8>) {
    let bind: SocketAddr = if addr.is_ipv4() { "0.0.0.0:0".parse().unwrap() } else { "[::]:0".parse().unwrap() };
    let Ok(ep) = quinn::Endpoint::client(bind) else { return (false, vec![]) };
    let cfg = raw_client_config(&json!({"peer_alpn": alpn}));
    let Ok(connecting) = ep.connect_with(cfg, addr, "localhost") else { return (false, vec![]) };
    match tokio::time::timeout(Duration::from_millis(ms), connecting).await {
        Ok(Ok(c)) => {
            let alpn = c
                .handshake_data()
                .and_then(|h| h.downcast::<quinn::crypto::rustls::HandshakeData>().ok())
                .and_then(|h| h.protocol.clone())
                .unwrap_or_default();
            c.close(quinn::VarInt::from_u32(0), b"probe");
            ep.wait_idle().await;
            (true, alpn)
        }
        _ => (false, vec![]),
    }
}

struct AbortOnDrop(tokio::task::JoinHandle<()>);

impl Drop for AbortOnDrop {
    fn drop(&mut self) {
        self.0.abort();
    }
}

fn preset(name: &str) -> IpBindConfig {
    match name {
        "LocalV4" => IpBindConfig::LocalV4,
        "LocalV6" => IpBindConfig::LocalV6,
        "LocalDual" => IpBindConfig::LocalDual,
        "InAddrAnyV4" => IpBindConfig::InAddrAnyV4,
        "InAddrAnyV6" => IpBindConfig::InAddrAnyV6,
        _ => IpBindConfig::InAddrAnyDual,
    }
}

fn addr_fields(m: &mut Map<String, Value>, a: SocketAddr) {
    put(m, "family", json!(if a.is_ipv4() { "v4" } else { "v6" }));
    put(m, "ip", bytes(a.ip().to_string().as_bytes()));
    put(m, "port", json!(a.port()));
}

pub fn suite_cfg(t: &mut Tracer, thorough: bool, _seed: u64) {
    let rt = tokio::runtime::Builder::new_multi_thread().worker_threads(2).enable_all().build().unwrap();
    let presets = ["LocalV4", "LocalV6", "LocalDual", "InAddrAnyV4", "InAddrAnyV6", "InAddrAnyDual"];
    // -- server bind presets: address read back + reachability over v4 / v6 loopback
    for p in presets {
        for path in ["identity", "custom_transport", "custom_tls"] {
            let mut m = Map::new();
            put(&mut m, "side", json!("server"));
            put(&mut m, "preset", json!(p));
            put(&mut m, "path", json!(path));
            let r = rt.block_on(async {
                let id = Identity::self_signed(["localhost"]).unwrap();
                let b = ServerConfig::builder().with_bind_config(preset(p), 0);
                let cfg = match path {
                    "identity" => b.with_identity(id).build(),
                    "custom_transport" => b.with_custom_transport(id, quinn::TransportConfig::default()).build(),
                    _ => b
                        .with_custom_tls(wtransport::tls::server::build_default_tls_config(id))
                        .build(),
                };
                let ep = Endpoint::server(cfg)?;
                let a = ep.local_addr()?;
                let ep = std::sync::Arc::new(ep);
                let ep2 = ep.clone();
                let acc = tokio::spawn(async move {
                    loop {
                        let inc = ep2.accept().await;
                        tokio::spawn(async move {
                            let _ = inc.await;
                        });
                    }
                });
                let _guard = AbortOnDrop(acc);
                let v4 = raw_probe(format!("127.0.0.1:{}", a.port()).parse().unwrap(), "h3", 1500).await;
                let v6 = raw_probe(format!("[::1]:{}", a.port()).parse().unwrap(), "h3", 1500).await;
                let wrong = raw_probe(
                    if v4.0 { format!("127.0.0.1:{}", a.port()) } else { format!("[::1]:{}", a.port()) }.parse().unwrap(),
                    "hq-29",
                    1500,
                )
                .await;
                Ok::<_, std::io::Error>((a, v4, v6, wrong))
            });
            match r {
                Ok((a, v4, v6, wrong)) => {
                    put(&mut m, "res", json!("ok"));
                    addr_fields(&mut m, a);
                    put(&mut m, "v4", json!(v4.0));
                    put(&mut m, "v6", json!(v6.0));
                    put(&mut m, "alpn", bytes(if v4.0 { &v4.1 } else { &v6.1 }));
                    put(&mut m, "wrong_alpn_ok", json!(wrong.0));
                }
                Err(e) => {
                    put(&mut m, "res", json!("err"));
                    put(&mut m, "text", json!(e.to_string()));
                }
            }
            emit(t, "bind", m, false);
            if !thorough {
                break;
            }
        }
    }
    // -- explicit addresses, dual-stack choices, pre-bound socket, explicit port
    let explicit: Vec<(&str, Box<dyn Fn() -> std::io::Result<Endpoint<wtransport::endpoint::endpoint_side::Server>>>)> = vec![
        ("v4_addr", Box::new(|| {
            let id = Identity::self_signed(["localhost"]).unwrap();
            Endpoint::server(ServerConfig::builder().with_bind_address("127.0.0.1:0".parse().unwrap()).with_identity(id).build())
        })),
        ("v6_os_default", Box::new(|| {
            let id = Identity::self_signed(["localhost"]).unwrap();
            Endpoint::server(ServerConfig::builder().with_bind_address_v6("[::1]:0".parse().unwrap(), Ipv6DualStackConfig::OsDefault).with_identity(id).build())
        })),
        ("v6_deny", Box::new(|| {
            let id = Identity::self_signed(["localhost"]).unwrap();
            Endpoint::server(ServerConfig::builder().with_bind_address_v6("[::]:0".parse().unwrap(), Ipv6DualStackConfig::Deny).with_identity(id).build())
        })),
        ("v6_allow", Box::new(|| {
            let id = Identity::self_signed(["localhost"]).unwrap();
            Endpoint::server(ServerConfig::builder().with_bind_address_v6("[::]:0".parse().unwrap(), Ipv6DualStackConfig::Allow).with_identity(id).build())
        })),
        ("socket", Box::new(|| {
            let id = Identity::self_signed(["localhost"]).unwrap();
            let s = std::net::UdpSocket::bind("127.0.0.1:0")?;
            Endpoint::server(ServerConfig::builder().with_bind_socket(s).with_identity(id).build())
        })),
    ];
    for (name, mk) in &explicit {
        let mut m = Map::new();
        put(&mut m, "side", json!("server"));
        put(&mut m, "preset", json!(name));
        put(&mut m, "path", json!("identity"));
        let r = rt.block_on(async {
            let ep = mk()?;
            let a = ep.local_addr()?;
            let ep = std::sync::Arc::new(ep);
            let ep2 = ep.clone();
            let acc = tokio::spawn(async move {
                loop {
                    let inc = ep2.accept().await;
                    tokio::spawn(async move {
                        let _ = inc.await;
                    });
                }
            });
            let _guard = AbortOnDrop(acc);
            let v4 = raw_probe(format!("127.0.0.1:{}", a.port()).parse().unwrap(), "h3", 1500).await;
            let v6 = raw_probe(format!("[::1]:{}", a.port()).parse().unwrap(), "h3", 1500).await;
            Ok::<_, std::io::Error>((a, v4, v6))
        });
        match r {
            Ok((a, v4, v6)) => {
                put(&mut m, "res", json!("ok"));
                addr_fields(&mut m, a);
                put(&mut m, "v4", json!(v4.0));
                put(&mut m, "v6", json!(v6.0));
                put(&mut m, "alpn", bytes(if v4.0 { &v4.1 } else { &v6.1 }));
                put(&mut m, "wrong_alpn_ok", json!(false));
            }
            Err(e) => {
                put(&mut m, "res", json!("err"));
                put(&mut m, "text", json!(e.to_string()));
            }
        }
        emit(t, "bind", m, false);
    }
    // -- client bind presets: local address family and which servers can be reached
    for p in presets {
        let mut m = Map::new();
        put(&mut m, "side", json!("client"));
        put(&mut m, "preset", json!(p));
        let r = rt.block_on(async {
            let id = Identity::self_signed(["localhost"]).unwrap();
            let srv = Endpoint::server(
                ServerConfig::builder().with_bind_config(IpBindConfig::InAddrAnyDual, 0).with_identity(id).build(),
            )?;
            let port = srv.local_addr()?.port();
            let acc = tokio::spawn(async move {
                loop {
                    let inc = srv.accept().await;
                    tokio::spawn(async move {
                        if let Ok(req) = inc.await {
                            if let Ok(c) = req.accept().await {
                                // keep the session up until the client is done with it
                                c.closed().await;
                            }
                        }
                    });
                }
            });
            let cep = Endpoint::client(ClientConfig::builder().with_bind_config(preset(p)).with_no_cert_validation().build())?;
            let a = cep.local_addr()?;
            let v4 = tokio::time::timeout(Duration::from_millis(2000), cep.connect(format!("https://127.0.0.1:{port}/"))).await;
            let v6 = tokio::time::timeout(Duration::from_millis(2000), cep.connect(format!("https://[::1]:{port}/"))).await;
            acc.abort();
            if std::env::var("WTV_DEBUG").is_ok() {
                eprintln!("{p}: v4={:?} v6={:?}", v4.as_ref().map(|r| r.as_ref().map(|_| ()).map_err(|e| e.to_string())),
                    v6.as_ref().map(|r| r.as_ref().map(|_| ()).map_err(|e| e.to_string())));
            }
            Ok::<_, std::io::Error>((a, matches!(v4, Ok(Ok(_))), matches!(v6, Ok(Ok(_)))))
        });
        match r {
            Ok((a, v4, v6)) => {
                put(&mut m, "res", json!("ok"));
                addr_fields(&mut m, a);
                put(&mut m, "v4", json!(v4));
                put(&mut m, "v6", json!(v6));
            }
            Err(e) => {
                put(&mut m, "res", json!("err"));
                put(&mut m, "text", json!(e.to_string()));
            }
        }
        emit(t, "bind", m, false);
    }
    // -- client against a server that does not speak h3: no session
    {
        let mut m = Map::new();
        let r = rt.block_on(async {
            let sep = quinn::Endpoint::server(raw_server_config(&json!({"peer_alpn": "hq-29"})), "127.0.0.1:0".parse().unwrap())?;
            let port = sep.local_addr()?.port();
            let cep = Endpoint::client(ClientConfig::builder().with_bind_default().with_no_cert_validation().build())?;
            let res = tokio::time::timeout(Duration::from_millis(1500), cep.connect(format!("https://127.0.0.1:{port}/"))).await;
            Ok::<_, std::io::Error>(matches!(res, Ok(Ok(_))))
        });
        put(&mut m, "connected", json!(r.unwrap_or(false)));
        emit(t, "client_wrong_alpn", m, false);
    }
    // -- idle timeout representability on both builders
    let idles: Vec<(&str, Option<Duration>)> = vec![
        ("none", None),
        ("1ms", Some(Duration::from_millis(1))),
        ("500ms", Some(Duration::from_millis(500))),
        ("2^62-1ms", Some(Duration::from_millis((1u64 << 62) - 1))),
        ("2^62ms", Some(Duration::from_millis(1u64 << 62))),
        ("max", Some(Duration::MAX)),
        ("2^63ms", Some(Duration::from_millis(1u64 << 63))),
        ("2^64-1ms", Some(Duration::from_millis(u64::MAX))),
        // beyond u64 milliseconds (a truncating conversion wraps these into the representable range)
        ("2^64ms+10s", Some(Duration::from_secs(18_446_744_073_709_562))),
        ("2^62s", Some(Duration::from_secs(1u64 << 62))),
        ("2^65ms+1ms", Some(Duration::new(36_893_488_147_419_103, 233_000_000))),
        ("maxsecs", Some(Duration::from_secs(u64::MAX))),
        ("3*2^64ms+500ms", Some(Duration::new(55_340_232_221_128_655, 348_000_000))),
    ];
    for (name, d) in &idles {
        for side in ["server", "client"] {
            let meas = measure(|| {
                if side == "server" {
                    let id = Identity::self_signed(["localhost"]).unwrap();
                    ServerConfig::builder().with_bind_default(0).with_identity(id).max_idle_timeout(*d).is_ok()
                } else {
                    ClientConfig::builder().with_bind_default().with_no_cert_validation().max_idle_timeout(*d).is_ok()
                }
            });
            let mut m = Map::new();
            put(&mut m, "side", json!(side));
            put(&mut m, "idle", json!(name));
            // the requested value in milliseconds as base-2^31 digits, least significant first ([] = none)
            let mut limbs = Vec::new();
            if let Some(d) = d {
                let mut ms = d.as_millis();
                for _ in 0..5 {
                    limbs.push((ms & 0x7fff_ffff) as u64);
                    ms >>= 31;
                }
            }
            put(&mut m, "ms", json!(limbs));
            put(
                &mut m,
                "res",
                json!(match meas.value {
                    Some(true) => "ok",
                    Some(false) => "err",
                    None => "panic",
                }),
            );
            emit(t, "idle_cfg", m, meas.panicked);
        }
    }
    // -- idle timeout / keep-alive in effect (the raw peer is silent and patient)
    for side in ["server", "client"] {
        for (idle_ms, keep, then_off) in [(500u64, None, false), (500, Some(100u64), false), (900, None, false), (600, Some(100u64), true)] {
            let scn = json!({"scn": "cfg-idle", "role": side, "peer": "raw",
                "cfg": {"idle_ms": idle_ms, "keepalive_ms": keep, "peer_idle_ms": 30000},
                "steps": []});
            let mut scn = scn;
            if keep.is_none() || then_off {
                scn["cfg"].as_object_mut().unwrap().remove("keepalive_ms");
            }
            // switched on and then off again on the same builder: off
            if then_off {
                scn["cfg"]["keepalive_then_off_ms"] = json!(keep.unwrap_or(100));
            }
            let keep = if then_off { None } else { keep };
            let mut m = Map::new();
            put(&mut m, "side", json!(side));
            put(&mut m, "idle_ms", json!(idle_ms));
            put(&mut m, "keepalive_ms", json!(keep.unwrap_or(0)));
            let (elapsed, err) = rt.block_on(crate::e2e::measure_idle(&scn, 3 * idle_ms + 600));
            put(&mut m, "elapsed_ms", json!(elapsed));
            put(&mut m, "end", json!(err));
            emit(t, "idle_effect", m, false);
        }
    }
    // -- migration: a raw client changes its UDP socket mid-connection
    for allow in [true, false] {
        let mut m = Map::new();
        put(&mut m, "allow", json!(allow));
        let alive = rt.block_on(crate::e2e::measure_migration(allow));
        put(&mut m, "alive_after_rebind", json!(alive));
        emit(t, "migration", m, false);
    }
    // -- the configured resolver is honoured in full
    {
        let mut m = Map::new();
        for (k, v) in rt.block_on(crate::e2e::measure_resolver()) {
            put(&mut m, &k, v);
        }
        emit(t, "resolver", m, false);
    }
    // -- reload_config: new connections see the new certificate, established ones are undisturbed
    {
        let mut m = Map::new();
        let r = rt.block_on(crate::e2e::measure_reload());
        for (k, v) in r {
            put(&mut m, &k, v);
        }
        emit(t, "reload", m, false);
    }
    let _ = v62(0);
}
