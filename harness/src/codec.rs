//! Projection of the real decoders/encoders of `wtransport-proto` to trace events.
//! Nothing in here knows what the right answer is: every function calls the
//! implementation and copies what it returned into a JSON record.
#![allow(dead_code)]

use crate::sio::drive;
use crate::sio::Eof;
use crate::sio::ScriptedReader;
use crate::trace::bytes;
use crate::trace::journal;
use crate::trace::lib;
use crate::trace::measure;
use crate::trace::v62;
use crate::trace::Tracer;
use serde_json::json;
use serde_json::Map;
use serde_json::Value;
use std::borrow::Cow;
use wtransport_proto::bytes::BufferReader;
use wtransport_proto::bytes::BytesReader;
use wtransport_proto::bytes::BytesReaderAsync;
use wtransport_proto::bytes::IoReadError as BIo;
use wtransport_proto::capsule::capsules::CloseWebTransportSession;
use wtransport_proto::capsule::Capsule;
use wtransport_proto::datagram::Datagram;
use wtransport_proto::error::ErrorCode;
use wtransport_proto::frame;
use wtransport_proto::frame::Frame;
use wtransport_proto::frame::FrameKind;
use wtransport_proto::headers::Headers;
use wtransport_proto::qpack;
use wtransport_proto::session::SessionRequest;
use wtransport_proto::settings::SettingId;
use wtransport_proto::settings::Settings;
use wtransport_proto::stream as ps;
use wtransport_proto::stream_header;
use wtransport_proto::stream_header::StreamHeader;
use wtransport_proto::stream_header::StreamKind;
use wtransport_proto::varint::VarInt;

pub const MAX_POLLS: usize = 20_000;
const PAYLOAD_FULL: usize = 48;

fn put(m: &mut Map<String, Value>, k: &str, v: Value) {
    m.insert(k.to_string(), v);
}

fn bio(e: &BIo) -> &'static str {
    match e {
        BIo::ImmediateFin => "immfin",
        BIo::UnexpectedFin => "unexfin",
        BIo::Reset => "reset",
        BIo::NotConnected => "notconn",
    }
}

pub fn frame_kind(k: FrameKind) -> (&'static str, u64) {
    match k {
        FrameKind::Data => ("data", 0),
        FrameKind::Headers => ("headers", 1),
        FrameKind::Settings => ("settings", 4),
        FrameKind::WebTransport => ("wt", 0x41),
        FrameKind::Exercise(id) => ("grease", id.into_inner()),
    }
}

pub fn stream_kind(k: StreamKind) -> (&'static str, u64) {
    match k {
        StreamKind::Control => ("control", 0),
        StreamKind::QPackEncoder => ("qenc", 2),
        StreamKind::QPackDecoder => ("qdec", 3),
        StreamKind::WebTransport => ("wt", 0x54),
        StreamKind::Exercise(id) => ("grease", id.into_inner()),
    }
}

/// Payload summary: full bytes when short, otherwise length + head/tail.
fn payload_fields(m: &mut Map<String, Value>, p: &[u8]) {
    put(m, "plen", json!(p.len()));
    if p.len() <= PAYLOAD_FULL {
        put(m, "payload", bytes(p));
    } else {
        put(m, "phead", bytes(&p[..8]));
        put(m, "ptail", bytes(&p[p.len() - 8..]));
    }
}

fn frame_fields(m: &mut Map<String, Value>, f: &Frame) {
    let (k, t) = frame_kind(f.kind());
    put(m, "kind", json!(k));
    put(m, "type", v62(t));
    put(
        m,
        "sid",
        v62(f.session_id().map(|s| s.into_u64()).unwrap_or(0)),
    );
    payload_fields(m, f.payload());
}

fn frame_perr(e: &frame::ParseError) -> &'static str {
    match e {
        frame::ParseError::UnknownFrame => "unknown",
        frame::ParseError::InvalidSessionId => "sid",
        frame::ParseError::PayloadTooBig => "toobig",
    }
}

fn shdr_perr(e: &stream_header::ParseError) -> &'static str {
    match e {
        stream_header::ParseError::UnknownStream => "unknown",
        stream_header::ParseError::InvalidSessionId => "sid",
    }
}

fn finish(
    t: &mut Tracer,
    ev: &str,
    api: &str,
    input: &[u8],
    script: Option<(&[usize], Eof)>,
    meas: crate::trace::Measured<Map<String, Value>>,
) {
    let mut m = Map::new();
    put(&mut m, "ev", json!(ev));
    put(&mut m, "api", json!(api));
    put(&mut m, "in", bytes(input));
    if let Some((chunks, eof)) = script {
        put(&mut m, "chunks", json!(chunks));
        put(&mut m, "eof", json!(eof.name()));
    }
    put(&mut m, "panic", json!(meas.panicked));
    put(&mut m, "alloc", json!(meas.alloc.min(i32::MAX as usize)));
    put(&mut m, "slow", json!(meas.micros > 2_000_000));
    if let Some(fields) = meas.value {
        for (k, v) in fields {
            m.insert(k, v);
        }
    } else {
        put(&mut m, "res", json!("panic"));
    }
    t.emit(Value::Object(m));
}

// ------------------------------------------------------------------ varint

pub fn varint_sync(t: &mut Tracer, input: &[u8]) {
    journal("varint_sync", input);
    let meas = measure(|| {
        let mut m = Map::new();
        let mut s: &[u8] = input;
        match lib(|| BytesReader::get_varint(&mut s)) {
            Some(v) => {
                put(&mut m, "res", json!("ok"));
                put(&mut m, "val", v62(v.into_inner()));
            }
            None => put(&mut m, "res", json!("more")),
        }
        put(&mut m, "used", json!(input.len() - s.len()));
        m
    });
    finish(t, "varint", "slice", input, None, meas);

    let meas = measure(|| {
        let mut m = Map::new();
        let mut r = BufferReader::new(input);
        match lib(|| BytesReader::get_varint(&mut r)) {
            Some(v) => {
                put(&mut m, "res", json!("ok"));
                put(&mut m, "val", v62(v.into_inner()));
            }
            None => put(&mut m, "res", json!("more")),
        }
        put(&mut m, "used", json!(r.offset()));
        m
    });
    finish(t, "varint", "buf", input, None, meas);
}

pub fn varint_async(t: &mut Tracer, input: &[u8], script: &[usize], eof: Eof) {
    journal("varint_async", input);
    let meas = measure(|| {
        let mut m = Map::new();
        let mut rd = ScriptedReader::new(input, script, eof);
        let r = lib(|| drive(BytesReaderAsync::get_varint(&mut rd), MAX_POLLS));
        match r {
            Some(Ok(v)) => {
                put(&mut m, "res", json!("ok"));
                put(&mut m, "val", v62(v.into_inner()));
            }
            Some(Err(e)) => {
                put(&mut m, "res", json!("io"));
                put(&mut m, "e", json!(bio(&e)));
            }
            None => put(&mut m, "res", json!("pending")),
        }
        put(&mut m, "used", json!(rd.pos));
        put(&mut m, "polls", json!(rd.polls));
        m
    });
    finish(t, "varint", "async", input, Some((script, eof)), meas);
}

// ------------------------------------------------------------------- frame

pub fn frame_sync(t: &mut Tracer, input: &[u8]) {
    journal("frame_sync", input);
    let meas = measure(|| {
        let mut m = Map::new();
        let mut s: &[u8] = input;
        match lib(|| Frame::read(&mut s)) {
            Ok(Some(f)) => {
                put(&mut m, "res", json!("ok"));
                frame_fields(&mut m, &f);
            }
            Ok(None) => put(&mut m, "res", json!("more")),
            Err(e) => {
                put(&mut m, "res", json!("err"));
                put(&mut m, "e", json!(frame_perr(&e)));
            }
        }
        put(&mut m, "used", json!(input.len() - s.len()));
        m
    });
    finish(t, "frame", "slice", input, None, meas);

    let meas = measure(|| {
        let mut m = Map::new();
        let mut r = BufferReader::new(input);
        match lib(|| Frame::read(&mut r)) {
            Ok(Some(f)) => {
                put(&mut m, "res", json!("ok"));
                frame_fields(&mut m, &f);
            }
            Ok(None) => put(&mut m, "res", json!("more")),
            Err(e) => {
                put(&mut m, "res", json!("err"));
                put(&mut m, "e", json!(frame_perr(&e)));
            }
        }
        put(&mut m, "used", json!(r.offset()));
        m
    });
    finish(t, "frame", "buf", input, None, meas);

    let meas = measure(|| {
        let mut m = Map::new();
        let mut r = BufferReader::new(input);
        match lib(|| Frame::read_from_buffer(&mut r)) {
            Ok(Some(f)) => {
                put(&mut m, "res", json!("ok"));
                frame_fields(&mut m, &f);
            }
            Ok(None) => put(&mut m, "res", json!("more")),
            Err(e) => {
                put(&mut m, "res", json!("err"));
                put(&mut m, "e", json!(frame_perr(&e)));
            }
        }
        put(&mut m, "used", json!(r.offset()));
        m
    });
    finish(t, "frame", "frombuf", input, None, meas);
}

pub fn frame_async(t: &mut Tracer, input: &[u8], script: &[usize], eof: Eof) {
    journal("frame_async", input);
    let meas = measure(|| {
        let mut m = Map::new();
        let mut rd = ScriptedReader::new(input, script, eof);
        let r = lib(|| drive(Frame::read_async(&mut rd), MAX_POLLS));
        match r {
            Some(Ok(f)) => {
                put(&mut m, "res", json!("ok"));
                frame_fields(&mut m, &f);
            }
            Some(Err(frame::IoReadError::Parse(e))) => {
                put(&mut m, "res", json!("err"));
                put(&mut m, "e", json!(frame_perr(&e)));
            }
            Some(Err(frame::IoReadError::IO(e))) => {
                put(&mut m, "res", json!("io"));
                put(&mut m, "e", json!(bio(&e)));
            }
            None => put(&mut m, "res", json!("pending")),
        }
        put(&mut m, "used", json!(rd.pos));
        put(&mut m, "polls", json!(rd.polls));
        m
    });
    finish(t, "frame", "async", input, Some((script, eof)), meas);
}

// ----------------------------------------------------------- stream header

fn shdr_fields(m: &mut Map<String, Value>, h: &StreamHeader) {
    let (k, ty) = stream_kind(h.kind());
    put(m, "kind", json!(k));
    put(m, "type", v62(ty));
    put(
        m,
        "sid",
        v62(h.session_id().map(|s| s.into_u64()).unwrap_or(0)),
    );
}

pub fn shdr_sync(t: &mut Tracer, input: &[u8]) {
    journal("shdr_sync", input);
    let meas = measure(|| {
        let mut m = Map::new();
        let mut s: &[u8] = input;
        match lib(|| StreamHeader::read(&mut s)) {
            Ok(Some(h)) => {
                put(&mut m, "res", json!("ok"));
                shdr_fields(&mut m, &h);
            }
            Ok(None) => put(&mut m, "res", json!("more")),
            Err(e) => {
                put(&mut m, "res", json!("err"));
                put(&mut m, "e", json!(shdr_perr(&e)));
            }
        }
        put(&mut m, "used", json!(input.len() - s.len()));
        m
    });
    finish(t, "shdr", "slice", input, None, meas);

    let meas = measure(|| {
        let mut m = Map::new();
        let mut r = BufferReader::new(input);
        match lib(|| StreamHeader::read_from_buffer(&mut r)) {
            Ok(Some(h)) => {
                put(&mut m, "res", json!("ok"));
                shdr_fields(&mut m, &h);
            }
            Ok(None) => put(&mut m, "res", json!("more")),
            Err(e) => {
                put(&mut m, "res", json!("err"));
                put(&mut m, "e", json!(shdr_perr(&e)));
            }
        }
        put(&mut m, "used", json!(r.offset()));
        m
    });
    finish(t, "shdr", "frombuf", input, None, meas);
}

pub fn shdr_async(t: &mut Tracer, input: &[u8], script: &[usize], eof: Eof) {
    journal("shdr_async", input);
    let meas = measure(|| {
        let mut m = Map::new();
        let mut rd = ScriptedReader::new(input, script, eof);
        let r = lib(|| drive(StreamHeader::read_async(&mut rd), MAX_POLLS));
        match r {
            Some(Ok(h)) => {
                put(&mut m, "res", json!("ok"));
                shdr_fields(&mut m, &h);
            }
            Some(Err(stream_header::IoReadError::Parse(e))) => {
                put(&mut m, "res", json!("err"));
                put(&mut m, "e", json!(shdr_perr(&e)));
            }
            Some(Err(stream_header::IoReadError::IO(e))) => {
                put(&mut m, "res", json!("io"));
                put(&mut m, "e", json!(bio(&e)));
            }
            None => put(&mut m, "res", json!("pending")),
        }
        put(&mut m, "used", json!(rd.pos));
        put(&mut m, "polls", json!(rd.polls));
        m
    });
    finish(t, "shdr", "async", input, Some((script, eof)), meas);
}

// -------------------------------------------------------------- typestates

#[derive(Clone, Copy, Debug, PartialEq, Eq)]
pub enum Role {
    BiRemote,
    BiLocal,
    UniRemote,
    Session,
}

impl Role {
    pub const ALL: [Role; 4] = [Role::BiRemote, Role::BiLocal, Role::UniRemote, Role::Session];
    pub fn name(self) -> &'static str {
        match self {
            Role::BiRemote => "biremote",
            Role::BiLocal => "bilocal",
            Role::UniRemote => "uniremote",
            Role::Session => "session",
        }
    }
}

pub enum Ts {
    BiRemote(ps::biremote::StreamBiRemoteH3),
    BiLocal(ps::bilocal::StreamBiLocalH3),
    UniRemote(ps::uniremote::StreamUniRemoteH3),
    Session(ps::session::StreamSession),
}

pub fn make_ts(role: Role) -> Ts {
    match role {
        Role::BiRemote => Ts::BiRemote(ps::biremote::StreamBiRemoteQuic::accept_bi().upgrade()),
        Role::BiLocal => Ts::BiLocal(ps::bilocal::StreamBiLocalQuic::open_bi().upgrade()),
        Role::UniRemote => {
            // a control stream: header byte 0x00
            let mut hdr: &[u8] = &[0u8];
            match ps::uniremote::StreamUniRemoteQuic::accept_uni()
                .upgrade(&mut hdr)
                .expect("control header")
            {
                ps::uniremote::MaybeUpgradeH3::H3(s) => Ts::UniRemote(s),
                ps::uniremote::MaybeUpgradeH3::Quic(_) => unreachable!(),
            }
        }
        Role::Session => {
            let req = SessionRequest::new("https://example.com/").expect("url");
            Ts::Session(
                ps::bilocal::StreamBiLocalQuic::open_bi()
                    .upgrade()
                    .into_session(req),
            )
        }
    }
}

fn ts_entry_ok(f: &Frame, used: usize) -> Value {
    let mut m = Map::new();
    put(&mut m, "res", json!("ok"));
    let (k, ty) = frame_kind(f.kind());
    put(&mut m, "kind", json!(k));
    put(&mut m, "type", v62(ty));
    put(
        &mut m,
        "sid",
        v62(f.session_id().map(|s| s.into_u64()).unwrap_or(0)),
    );
    payload_fields(&mut m, f.payload());
    put(&mut m, "used", json!(used));
    Value::Object(m)
}

fn ts_entry(res: &str, code: Option<ErrorCode>, e: Option<&str>, used: usize) -> Value {
    let mut m = Map::new();
    put(&mut m, "res", json!(res));
    if let Some(c) = code {
        put(&mut m, "code", json!(c.to_code().into_inner()));
    }
    if let Some(e) = e {
        put(&mut m, "e", json!(e));
    }
    put(&mut m, "used", json!(used));
    Value::Object(m)
}

const TS_MAX_CALLS: usize = 64;

/// Repeatedly calls the synchronous reader on one typestate object until it stops
/// yielding frames. `api` is "slice" (read_frame on &[u8]) or "frombuf".
pub fn ts_sync(t: &mut Tracer, role: Role, api: &str, input: &[u8]) {
    journal("ts_sync", input);
    let meas = measure(|| {
        let mut m = Map::new();
        let mut out = Vec::new();
        let mut ts = make_ts(role);
        let mut s: &[u8] = input;
        let mut r = BufferReader::new(input);
        for _ in 0..TS_MAX_CALLS {
            let res = lib(|| if api == "slice" {
                match &mut ts {
                    Ts::BiRemote(x) => x.read_frame(&mut s),
                    Ts::BiLocal(x) => x.read_frame(&mut s),
                    Ts::UniRemote(x) => x.read_frame(&mut s),
                    Ts::Session(x) => x.read_frame(&mut s),
                }
            } else {
                match &mut ts {
                    Ts::BiRemote(x) => x.read_frame_from_buffer(&mut r),
                    Ts::BiLocal(x) => x.read_frame_from_buffer(&mut r),
                    Ts::UniRemote(x) => x.read_frame_from_buffer(&mut r),
                    Ts::Session(x) => x.read_frame_from_buffer(&mut r),
                }
            });
            let used = if api == "slice" {
                input.len() - s.len()
            } else {
                r.offset()
            };
            match res {
                Ok(Some(f)) => out.push(ts_entry_ok(&f, used)),
                Ok(None) => {
                    out.push(ts_entry("more", None, None, used));
                    break;
                }
                Err(code) => {
                    out.push(ts_entry("err", Some(code), None, used));
                    break;
                }
            }
        }
        put(&mut m, "out", Value::Array(out));
        m
    });
    let mut m = meas;
    if let Some(fields) = m.value.as_mut() {
        put(fields, "role", json!(role.name()));
    }
    finish(t, "ts", api, input, None, m);
}

/// The buffered reader the way a driver uses it: ONE typestate object, a buffer that grows by
/// `step` bytes per attempt; what was consumed is dropped from the front. The frames obtained and the
/// final answer (all input offered) must be those of a single call on the whole input.
pub fn ts_incr(t: &mut Tracer, role: Role, input: &[u8], step: usize) {
    journal("ts_incr", input);
    let meas = measure(|| {
        let mut m = Map::new();
        let mut out = Vec::new();
        let mut ts = make_ts(role);
        let mut consumed = 0usize;
        let mut have = 0usize;
        let mut calls = 0usize;
        'outer: loop {
            // offer what has arrived so far, again and again while frames come out
            loop {
                calls += 1;
                if calls > 4 * TS_MAX_CALLS + input.len() + 8 {
                    break 'outer;
                }
                let mut r = BufferReader::new(&input[consumed..have]);
                let res = lib(|| match &mut ts {
                    Ts::BiRemote(x) => x.read_frame_from_buffer(&mut r),
                    Ts::BiLocal(x) => x.read_frame_from_buffer(&mut r),
                    Ts::UniRemote(x) => x.read_frame_from_buffer(&mut r),
                    Ts::Session(x) => x.read_frame_from_buffer(&mut r),
                });
                let used = consumed + r.offset();
                match res {
                    Ok(Some(f)) => {
                        out.push(ts_entry_ok(&f, used));
                        consumed = used;
                        if out.len() >= TS_MAX_CALLS {
                            break 'outer;
                        }
                    }
                    Ok(None) => {
                        if have == input.len() {
                            out.push(ts_entry("more", None, None, used));
                            break 'outer;
                        }
                        // (a reader that advanced although it asked for more has lost those bytes)
                        consumed = used;
                        break;
                    }
                    Err(code) => {
                        out.push(ts_entry("err", Some(code), None, used));
                        break 'outer;
                    }
                }
            }
            have = (have + step.max(1)).min(input.len());
        }
        put(&mut m, "out", Value::Array(out));
        put(&mut m, "step", json!(step));
        m
    });
    let mut m = meas;
    if let Some(fields) = m.value.as_mut() {
        put(fields, "role", json!(role.name()));
    }
    finish(t, "ts", "incr", input, None, m);
}

pub fn ts_async(t: &mut Tracer, role: Role, input: &[u8], script: &[usize], eof: Eof) {
    journal("ts_async", input);
    let meas = measure(|| {
        let mut m = Map::new();
        let mut out = Vec::new();
        let mut ts = make_ts(role);
        let mut rd = ScriptedReader::new(input, script, eof);
        for _ in 0..TS_MAX_CALLS {
            let res = lib(|| match &mut ts {
                Ts::BiRemote(x) => drive(x.read_frame_async(&mut rd), MAX_POLLS),
                Ts::BiLocal(x) => drive(x.read_frame_async(&mut rd), MAX_POLLS),
                Ts::UniRemote(x) => drive(x.read_frame_async(&mut rd), MAX_POLLS),
                Ts::Session(x) => drive(x.read_frame_async(&mut rd), MAX_POLLS),
            });
            let used = rd.pos;
            match res {
                Some(Ok(f)) => out.push(ts_entry_ok(&f, used)),
                Some(Err(ps::IoReadError::H3(code))) => {
                    out.push(ts_entry("err", Some(code), None, used));
                    break;
                }
                Some(Err(ps::IoReadError::IO(e))) => {
                    out.push(ts_entry("io", None, Some(bio(&e)), used));
                    break;
                }
                None => {
                    out.push(ts_entry("pending", None, None, used));
                    break;
                }
            }
        }
        put(&mut m, "out", Value::Array(out));
        put(&mut m, "polls", json!(rd.polls));
        m
    });
    let mut m = meas;
    if let Some(fields) = m.value.as_mut() {
        put(fields, "role", json!(role.name()));
    }
    finish(t, "ts", "async", input, Some((script, eof)), m);
}

/// The unidirectional stream preamble reader (`upgrade` / `upgrade_async`).
pub fn uni_upgrade(t: &mut Tracer, input: &[u8], script: &[usize], eof: Eof) {
    journal("uni_upgrade", input);
    let meas = measure(|| {
        let mut m = Map::new();
        let mut s: &[u8] = input;
        match ps::uniremote::StreamUniRemoteQuic::accept_uni().upgrade(&mut s) {
            Ok(ps::uniremote::MaybeUpgradeH3::H3(h)) => {
                put(&mut m, "res", json!("ok"));
                let (k, ty) = stream_kind(h.kind());
                put(&mut m, "kind", json!(k));
                put(&mut m, "type", v62(ty));
                put(
                    &mut m,
                    "sid",
                    v62(h.session_id().map(|s| s.into_u64()).unwrap_or(0)),
                );
            }
            Ok(ps::uniremote::MaybeUpgradeH3::Quic(_)) => put(&mut m, "res", json!("more")),
            Err(code) => {
                put(&mut m, "res", json!("err"));
                put(&mut m, "code", json!(code.to_code().into_inner()));
            }
        }
        put(&mut m, "used", json!(input.len() - s.len()));
        m
    });
    finish(t, "uniup", "slice", input, None, meas);

    let meas = measure(|| {
        let mut m = Map::new();
        let mut rd = ScriptedReader::new(input, script, eof);
        let r = drive(
            ps::uniremote::StreamUniRemoteQuic::accept_uni().upgrade_async(&mut rd),
            MAX_POLLS,
        );
        match r {
            Some(Ok(h)) => {
                put(&mut m, "res", json!("ok"));
                let (k, ty) = stream_kind(h.kind());
                put(&mut m, "kind", json!(k));
                put(&mut m, "type", v62(ty));
                put(
                    &mut m,
                    "sid",
                    v62(h.session_id().map(|s| s.into_u64()).unwrap_or(0)),
                );
            }
            Some(Err(ps::IoReadError::H3(code))) => {
                put(&mut m, "res", json!("err"));
                put(&mut m, "code", json!(code.to_code().into_inner()));
            }
            Some(Err(ps::IoReadError::IO(e))) => {
                put(&mut m, "res", json!("io"));
                put(&mut m, "e", json!(bio(&e)));
            }
            None => put(&mut m, "res", json!("pending")),
        }
        put(&mut m, "used", json!(rd.pos));
        m
    });
    finish(t, "uniup", "async", input, Some((script, eof)), meas);
}

// ---------------------------------------------------------------- settings

pub fn setting_id_num(id: SettingId) -> u64 {
    match id {
        SettingId::QPackMaxTableCapacity => 0x01,
        SettingId::MaxFieldSectionSize => 0x06,
        SettingId::QPackBlockedStreams => 0x07,
        SettingId::EnableConnectProtocol => 0x08,
        SettingId::H3Datagram => 0x33,
        SettingId::EnableWebTransport => 0x2b60_3742,
        SettingId::WebTransportMaxSessions => 0xc671_706a,
        SettingId::Exercise(v) => v.into_inner(),
    }
}

const KNOWN_SETTINGS: [SettingId; 7] = [
    SettingId::QPackMaxTableCapacity,
    SettingId::MaxFieldSectionSize,
    SettingId::QPackBlockedStreams,
    SettingId::EnableConnectProtocol,
    SettingId::H3Datagram,
    SettingId::EnableWebTransport,
    SettingId::WebTransportMaxSessions,
];

/// Every varint decodable at any offset of `payload` (projection aid: candidates
/// for `Settings::get(SettingId::Exercise(_))`, the map has no iterator).
fn candidate_ids(payload: &[u8]) -> Vec<u64> {
    let mut out = Vec::new();
    for i in 0..payload.len() {
        let n = 1usize << (payload[i] >> 6);
        if i + n <= payload.len() {
            let mut v = (payload[i] & 0x3f) as u64;
            for b in &payload[i + 1..i + n] {
                v = (v << 8) | *b as u64;
            }
            if !out.contains(&v) {
                out.push(v);
            }
        }
    }
    out
}

pub fn settings_map(s: &Settings, payload: &[u8]) -> Value {
    let mut pairs = Vec::new();
    for id in KNOWN_SETTINGS {
        if let Some(v) = s.get(id) {
            pairs.push(json!([v62(setting_id_num(id)), v62(v.into_inner())]));
        }
    }
    for c in candidate_ids(payload) {
        if KNOWN_SETTINGS.iter().any(|k| setting_id_num(*k) == c) {
            continue;
        }
        if let Ok(v) = VarInt::try_from_u64(c) {
            if let Some(val) = s.get(SettingId::Exercise(v)) {
                pairs.push(json!([v62(c), v62(val.into_inner())]));
            }
        }
    }
    Value::Array(pairs)
}

pub fn settings_dec(t: &mut Tracer, payload: &[u8]) {
    journal("settings_dec", payload);
    let meas = measure(|| {
        let mut m = Map::new();
        let f = Frame::new_settings(Cow::Borrowed(payload));
        match lib(|| Settings::with_frame(&f)) {
            Ok(s) => {
                put(&mut m, "res", json!("ok"));
                put(&mut m, "map", settings_map(&s, payload));
            }
            Err(code) => {
                put(&mut m, "res", json!("err"));
                put(&mut m, "code", json!(code.to_code().into_inner()));
            }
        }
        m
    });
    finish(t, "settings", "frame", payload, None, meas);
}

// ------------------------------------------------------------------- qpack

pub fn pairs_value<'a>(it: impl Iterator<Item = (&'a String, &'a String)>) -> Value {
    let mut v: Vec<(&String, &String)> = it.collect();
    v.sort();
    Value::Array(
        v.into_iter()
            .map(|(k, v)| json!([bytes(k.as_bytes()), bytes(v.as_bytes())]))
            .collect(),
    )
}

pub fn qpack_dec(t: &mut Tracer, data: &[u8]) {
    journal("qpack_dec", data);
    let meas = measure(|| {
        let mut m = Map::new();
        match lib(|| qpack::Decoder::decode(data)) {
            Ok(map) => {
                put(&mut m, "res", json!("ok"));
                put(&mut m, "pairs", pairs_value(map.iter()));
            }
            Err(_) => {
                put(&mut m, "res", json!("err"));
            }
        }
        m
    });
    finish(t, "qpack", "decode", data, None, meas);
}

pub fn headers_dec(t: &mut Tracer, data: &[u8]) {
    journal("headers_dec", data);
    let meas = measure(|| {
        let mut m = Map::new();
        let f = Frame::new_headers(Cow::Borrowed(data));
        match lib(|| Headers::with_frame(&f)) {
            Ok(h) => {
                put(&mut m, "res", json!("ok"));
                put(&mut m, "pairs", pairs_value(h.as_ref().iter()));
            }
            Err(code) => {
                put(&mut m, "res", json!("err"));
                put(&mut m, "code", json!(code.to_code().into_inner()));
            }
        }
        m
    });
    finish(t, "qpack", "headers", data, None, meas);
}

// ---------------------------------------------------------------- datagram

pub fn dgram_dec(t: &mut Tracer, data: &[u8]) {
    journal("dgram_dec", data);
    let meas = measure(|| {
        let mut m = Map::new();
        match lib(|| Datagram::read(data)) {
            Ok(d) => {
                put(&mut m, "res", json!("ok"));
                put(&mut m, "q", v62(d.qstream_id().into_u64()));
                put(&mut m, "off", json!(data.len() - d.payload().len()));
                put(
                    &mut m,
                    "tail_ok",
                    json!(d.payload() == &data[data.len() - d.payload().len()..]),
                );
                put(&mut m, "sid", v62(d.qstream_id().into_session_id().into_u64()));
                put(
                    &mut m,
                    "stream",
                    v62(d.qstream_id().into_stream_id().into_u64()),
                );
            }
            Err(code) => {
                put(&mut m, "res", json!("err"));
                put(&mut m, "code", json!(code.to_code().into_inner()));
            }
        }
        m
    });
    finish(t, "dgram", "read", data, None, meas);
}

// ----------------------------------------------------------------- capsule

pub fn capsule_dec(t: &mut Tracer, data: &[u8]) {
    journal("capsule_dec", data);
    let meas = measure(|| {
        let mut m = Map::new();
        let f = Frame::new_data(Cow::Borrowed(data));
        match lib(|| Capsule::with_frame(&f)) {
            None => put(&mut m, "res", json!("none")),
            Some(c) => {
                put(&mut m, "res", json!("close"));
                put(&mut m, "vlen", json!(c.payload().len()));
                // where the value starts inside `data`
                let off = c.payload().as_ptr() as usize - f.payload().as_ptr() as usize;
                put(&mut m, "voff", json!(off));
                match lib(|| CloseWebTransportSession::with_capsule(&c)) {
                    Ok(cl) => {
                        put(&mut m, "close", json!("ok"));
                        put(&mut m, "code", v62(cl.error_code().into_inner()));
                        put(&mut m, "reason", bytes(cl.reason().as_bytes()));
                    }
                    Err(code) => {
                        put(&mut m, "close", json!("err"));
                        put(&mut m, "ecode", json!(code.to_code().into_inner()));
                    }
                }
            }
        }
        m
    });
    finish(t, "capsule", "frame", data, None, meas);
}

// ======================================================================
// Encoders (C14), identifier algebra (C17), admission (C18)
// ======================================================================

use crate::sio::ScriptedWriter;
use wtransport_proto::bytes::BufferWriter;
use wtransport_proto::bytes::BytesWriter;
use wtransport_proto::bytes::BytesWriterAsync;
use wtransport_proto::ids::QStreamId;
use wtransport_proto::ids::SessionId;
use wtransport_proto::ids::StatusCode;
use wtransport_proto::ids::StreamId;
use wtransport_proto::session::HeadersParseError;
use wtransport_proto::session::SessionResponse;
use wtransport_proto::session::UrlParseError;

const FILL: u8 = 0xAA;

fn emit(t: &mut Tracer, ev: &str, api: &str, meas: crate::trace::Measured<Map<String, Value>>) {
    let mut m = Map::new();
    put(&mut m, "ev", json!(ev));
    put(&mut m, "api", json!(api));
    put(&mut m, "panic", json!(meas.panicked));
    put(&mut m, "alloc", json!(meas.alloc.min(i32::MAX as usize)));
    if let Some(fields) = meas.value {
        for (k, v) in fields {
            m.insert(k, v);
        }
    } else {
        put(&mut m, "res", json!("panic"));
    }
    t.emit(Value::Object(m));
}

/// Encoded bytes: full when short, else length + head + tail.
fn out_bytes(m: &mut Map<String, Value>, b: &[u8]) {
    put(m, "blen", json!(b.len()));
    if b.len() <= 96 {
        put(m, "bytes", bytes(b));
    } else {
        put(m, "bhead", bytes(&b[..24]));
        put(m, "btail", bytes(&b[b.len() - 8..]));
    }
}

fn untouched(buf: &[u8]) -> bool {
    buf.iter().all(|b| *b == FILL)
}

pub fn varint_enc(t: &mut Tracer, v: u64, script: &[usize]) {
    let Ok(vi) = VarInt::try_from_u64(v) else {
        let meas = measure(|| {
            let mut m = Map::new();
            put(&mut m, "v", json!([-1, -1]));
            put(&mut m, "res", json!("range"));
            m
        });
        emit(t, "varint_enc", "try_from", meas);
        return;
    };
    let meas = measure(|| {
        let mut m = Map::new();
        put(&mut m, "v", v62(v));
        let mut out = Vec::new();
        let r = lib(|| BytesWriter::put_varint(&mut out, vi));
        put(&mut m, "res", json!(if r.is_ok() { "ok" } else { "eob" }));
        out_bytes(&mut m, &out);
        put(&mut m, "size", json!(lib(|| vi.size())));
        if let Some(first) = out.first() {
            put(&mut m, "parse_size", json!(VarInt::parse_size(*first)));
        }
        let mut s: &[u8] = &out;
        if let Some(back) = lib(|| BytesReader::get_varint(&mut s)) {
            put(&mut m, "rt", v62(back.into_inner()));
            put(&mut m, "rt_used", json!(out.len() - s.len()));
        }
        m
    });
    emit(t, "varint_enc", "vec", meas);

    let size = vi.size();
    for cap in [size.saturating_sub(1), size, size + 1] {
        let meas = measure(|| {
            let mut m = Map::new();
            put(&mut m, "v", v62(v));
            put(&mut m, "cap", json!(cap));
            let mut buf = vec![FILL; cap];
            let mut w = BufferWriter::new(&mut buf);
            let r = lib(|| BytesWriter::put_varint(&mut w, vi));
            let off = w.offset();
            put(&mut m, "res", json!(if r.is_ok() { "ok" } else { "eob" }));
            put(&mut m, "written", json!(off));
            out_bytes(&mut m, &buf[..off]);
            m
        });
        emit(t, "varint_enc", "buf", meas);
    }

    let meas = measure(|| {
        let mut m = Map::new();
        put(&mut m, "v", v62(v));
        put(&mut m, "chunks", json!(script));
        let mut w = ScriptedWriter::new(script);
        let r = lib(|| drive(BytesWriterAsync::put_varint(&mut w, vi), MAX_POLLS));
        put(
            &mut m,
            "res",
            json!(match r {
                Some(Ok(())) => "ok",
                Some(Err(_)) => "io",
                None => "pending",
            }),
        );
        out_bytes(&mut m, &w.data);
        m
    });
    emit(t, "varint_enc", "async", meas);
}

#[derive(Clone, Copy)]
pub enum FKind {
    Data,
    Headers,
    Settings,
    Grease(u64),
    Wt(u64),
}

fn make_frame(k: FKind, payload: &[u8]) -> Frame<'_> {
    match k {
        FKind::Data => Frame::new_data(Cow::Borrowed(payload)),
        FKind::Headers => Frame::new_headers(Cow::Borrowed(payload)),
        FKind::Settings => Frame::new_settings(Cow::Borrowed(payload)),
        FKind::Grease(id) => {
            Frame::new_exercise(VarInt::try_from_u64(id).unwrap(), Cow::Borrowed(payload))
        }
        FKind::Wt(sid) => Frame::new_webtransport(
            SessionId::try_from_session_stream(StreamId::new(VarInt::try_from_u64(sid).unwrap()))
                .expect("valid session id"),
        ),
    }
}

fn fkind_fields(m: &mut Map<String, Value>, k: FKind, plen: usize, salt: usize) {
    let (name, ty, sid) = match k {
        FKind::Data => ("data", 0, 0),
        FKind::Headers => ("headers", 1, 0),
        FKind::Settings => ("settings", 4, 0),
        FKind::Grease(id) => ("grease", id, 0),
        FKind::Wt(sid) => ("wt", 0x41, sid),
    };
    put(m, "kind", json!(name));
    put(m, "type", v62(ty));
    put(m, "sid", v62(sid));
    put(m, "plen", json!(plen));
    put(m, "salt", json!(salt));
}

fn rt_frame(m: &mut Map<String, Value>, encoded: &[u8]) {
    let mut s: &[u8] = encoded;
    match lib(|| Frame::read(&mut s)) {
        Ok(Some(f)) => {
            let mut r = Map::new();
            frame_fields(&mut r, &f);
            put(&mut r, "used", json!(encoded.len() - s.len()));
            put(m, "rt", Value::Object(r));
        }
        Ok(None) => put(m, "rt", json!({"res": "more"})),
        Err(e) => put(m, "rt", json!({"res": "err", "e": frame_perr(&e)})),
    }
}

/// the same encoding read back through the asynchronous reader (whole input available, then the
/// end of the stream): `rta` must equal `rt`
fn rt_frame_async(m: &mut Map<String, Value>, encoded: &[u8]) {
    let mut rd = ScriptedReader::new(encoded, &[], Eof::Fin);
    let r = lib(|| drive(Frame::read_async(&mut rd), MAX_POLLS));
    match r {
        Some(Ok(f)) => {
            let mut r = Map::new();
            frame_fields(&mut r, &f);
            put(&mut r, "used", json!(rd.pos));
            put(m, "rta", Value::Object(r));
        }
        Some(Err(frame::IoReadError::Parse(e))) => put(m, "rta", json!({"res": "err", "e": frame_perr(&e)})),
        Some(Err(frame::IoReadError::IO(e))) => put(m, "rta", json!({"res": "io", "e": bio(&e)})),
        None => put(m, "rta", json!({"res": "pending"})),
    }
}

pub fn frame_enc(t: &mut Tracer, k: FKind, plen: usize, salt: usize, script: &[usize]) {
    let payload = crate::gen::pattern(plen, salt);
    let meas = measure(|| {
        let mut m = Map::new();
        fkind_fields(&mut m, k, plen, salt);
        let f = make_frame(k, &payload);
        let mut out = Vec::new();
        let r = lib(|| f.write(&mut out));
        put(&mut m, "res", json!(if r.is_ok() { "ok" } else { "eob" }));
        put(&mut m, "size", json!(lib(|| f.write_size())));
        out_bytes(&mut m, &out);
        rt_frame(&mut m, &out);
        rt_frame_async(&mut m, &out);
        m
    });
    emit(t, "frame_enc", "vec", meas);

    let size = make_frame(k, &payload).write_size();
    for cap in [0, size.saturating_sub(1), size, size + 1] {
        let meas = measure(|| {
            let mut m = Map::new();
            fkind_fields(&mut m, k, plen, salt);
            put(&mut m, "cap", json!(cap));
            let f = make_frame(k, &payload);
            let mut buf = vec![FILL; cap];
            let mut w = BufferWriter::new(&mut buf);
            let r = lib(|| f.write_to_buffer(&mut w));
            let off = w.offset();
            put(&mut m, "res", json!(if r.is_ok() { "ok" } else { "eob" }));
            put(&mut m, "written", json!(off));
            put(&mut m, "untouched", json!(untouched(&buf[off..])));
            out_bytes(&mut m, &buf[..off]);
            m
        });
        emit(t, "frame_enc", "tobuf", meas);
    }

    let meas = measure(|| {
        let mut m = Map::new();
        fkind_fields(&mut m, k, plen, salt);
        put(&mut m, "chunks", json!(script));
        let f = make_frame(k, &payload);
        let mut w = ScriptedWriter::new(script);
        let r = lib(|| drive(f.write_async(&mut w), MAX_POLLS));
        put(
            &mut m,
            "res",
            json!(match r {
                Some(Ok(())) => "ok",
                Some(Err(_)) => "io",
                None => "pending",
            }),
        );
        out_bytes(&mut m, &w.data);
        m
    });
    emit(t, "frame_enc", "async", meas);
}

pub fn shdr_enc(t: &mut Tracer, sid: Option<u64>, script: &[usize]) {
    let mk = || match sid {
        None => StreamHeader::new_control(),
        Some(s) => StreamHeader::new_webtransport(
            SessionId::try_from_session_stream(StreamId::new(VarInt::try_from_u64(s).unwrap()))
                .expect("valid session id"),
        ),
    };
    let fields = |m: &mut Map<String, Value>| {
        put(m, "kind", json!(if sid.is_some() { "wt" } else { "control" }));
        put(m, "sid", v62(sid.unwrap_or(0)));
    };
    let meas = measure(|| {
        let mut m = Map::new();
        fields(&mut m);
        let h = mk();
        let mut out = Vec::new();
        let r = lib(|| h.write(&mut out));
        put(&mut m, "res", json!(if r.is_ok() { "ok" } else { "eob" }));
        put(&mut m, "size", json!(lib(|| h.write_size())));
        out_bytes(&mut m, &out);
        let mut s: &[u8] = &out;
        if let Ok(Some(back)) = lib(|| StreamHeader::read(&mut s)) {
            let mut r = Map::new();
            shdr_fields(&mut r, &back);
            put(&mut r, "used", json!(out.len() - s.len()));
            put(&mut m, "rt", Value::Object(r));
        }
        // ... and through the asynchronous reader: same value, same byte count
        let mut rd = ScriptedReader::new(&out, &[], Eof::Fin);
        if let Some(Ok(back)) = lib(|| drive(StreamHeader::read_async(&mut rd), MAX_POLLS)) {
            let mut r = Map::new();
            shdr_fields(&mut r, &back);
            put(&mut r, "used", json!(rd.pos));
            put(&mut m, "rta", Value::Object(r));
        }
        m
    });
    emit(t, "shdr_enc", "vec", meas);

    let size = mk().write_size();
    for cap in [0, size.saturating_sub(1), size, size + 1] {
        let meas = measure(|| {
            let mut m = Map::new();
            fields(&mut m);
            put(&mut m, "cap", json!(cap));
            let h = mk();
            let mut buf = vec![FILL; cap];
            let mut w = BufferWriter::new(&mut buf);
            let r = lib(|| h.write_to_buffer(&mut w));
            let off = w.offset();
            put(&mut m, "res", json!(if r.is_ok() { "ok" } else { "eob" }));
            put(&mut m, "written", json!(off));
            put(&mut m, "untouched", json!(untouched(&buf[off..])));
            out_bytes(&mut m, &buf[..off]);
            m
        });
        emit(t, "shdr_enc", "tobuf", meas);
    }

    let meas = measure(|| {
        let mut m = Map::new();
        fields(&mut m);
        put(&mut m, "chunks", json!(script));
        let h = mk();
        let mut w = ScriptedWriter::new(script);
        let r = lib(|| drive(h.write_async(&mut w), MAX_POLLS));
        put(
            &mut m,
            "res",
            json!(match r {
                Some(Ok(())) => "ok",
                Some(Err(_)) => "io",
                None => "pending",
            }),
        );
        out_bytes(&mut m, &w.data);
        m
    });
    emit(t, "shdr_enc", "async", meas);
}

/// `set`: (builder method name, value) in call order.
pub fn settings_enc(t: &mut Tracer, set: &[(&str, u64)]) {
    let build = || {
        let mut b = Settings::builder();
        for (name, v) in set {
            let v = VarInt::try_from_u64(*v).unwrap();
            b = match *name {
                "qpack_max_table_capacity" => b.qpack_max_table_capacity(v),
                "qpack_blocked_streams" => b.qpack_blocked_streams(v),
                "enable_connect_protocol" => b.enable_connect_protocol(),
                "enable_webtransport" => b.enable_webtransport(),
                "enable_h3_datagrams" => b.enable_h3_datagrams(),
                "webtransport_max_sessions" => b.webtransport_max_sessions(v),
                _ => unreachable!(),
            };
        }
        b.build()
    };
    let set_json = Value::Array(set.iter().map(|(n, v)| json!([n, v62(*v)])).collect());
    let meas = measure(|| {
        let mut m = Map::new();
        put(&mut m, "set", set_json.clone());
        let s = build();
        let f = lib(|| s.generate_frame());
        let (k, _) = frame_kind(f.kind());
        put(&mut m, "kind", json!(k));
        put(&mut m, "res", json!("ok"));
        out_bytes(&mut m, f.payload());
        match lib(|| Settings::with_frame(&f)) {
            Ok(back) => put(&mut m, "rt", settings_map(&back, f.payload())),
            Err(c) => put(&mut m, "rt_err", json!(c.to_code().into_inner())),
        }
        m
    });
    emit(t, "settings_enc", "frame", meas);

    let need = build().generate_frame().payload().len();
    for cap in [need.saturating_sub(1), need, need + 3] {
        let meas = measure(|| {
            let mut m = Map::new();
            put(&mut m, "set", set_json.clone());
            put(&mut m, "cap", json!(cap));
            put(&mut m, "need", json!(need));
            let s = build();
            let mut buf = vec![FILL; cap];
            match lib(|| s.generate_frame_ref(&mut buf)) {
                Ok(f) => {
                    put(&mut m, "res", json!("ok"));
                    let (k, _) = frame_kind(f.kind());
                    put(&mut m, "kind", json!(k));
                    out_bytes(&mut m, f.payload());
                }
                Err(_) => put(&mut m, "res", json!("eob")),
            }
            m
        });
        emit(t, "settings_enc", "ref", meas);
    }
}

fn pairs_json(pairs: &[(Vec<u8>, Vec<u8>)]) -> Value {
    Value::Array(
        pairs
            .iter()
            .map(|(k, v)| json!([bytes(k), bytes(v)]))
            .collect(),
    )
}

/// `pairs` are UTF-8 strings given as bytes (the caller guarantees validity).
pub fn qpack_enc(t: &mut Tracer, pairs: &[(Vec<u8>, Vec<u8>)]) {
    let strs: Vec<(String, String)> = pairs
        .iter()
        .map(|(k, v)| {
            (
                String::from_utf8(k.clone()).unwrap(),
                String::from_utf8(v.clone()).unwrap(),
            )
        })
        .collect();
    let meas = measure(|| {
        let mut m = Map::new();
        put(&mut m, "pairs", pairs_json(pairs));
        let enc = lib(|| qpack::Encoder::encode(strs.iter().map(|(k, v)| (k, v))));
        put(&mut m, "res", json!("ok"));
        put(&mut m, "blen", json!(enc.len()));
        put(&mut m, "bytes", bytes(&enc));
        match lib(|| qpack::Decoder::decode(&enc)) {
            Ok(map) => put(&mut m, "rt", pairs_value(map.iter())),
            Err(_) => put(&mut m, "rt_err", json!(true)),
        }
        m
    });
    emit(t, "qpack_enc", "encode", meas);

    let meas = measure(|| {
        let mut m = Map::new();
        put(&mut m, "pairs", pairs_json(pairs));
        let h: Headers = strs.iter().map(|(k, v)| (k.clone(), v.clone())).collect();
        let f = lib(|| h.generate_frame());
        let (k, _) = frame_kind(f.kind());
        put(&mut m, "kind", json!(k));
        put(&mut m, "res", json!("ok"));
        put(&mut m, "blen", json!(f.payload().len()));
        put(&mut m, "bytes", bytes(f.payload()));
        match lib(|| Headers::with_frame(&f)) {
            Ok(back) => put(&mut m, "rt", pairs_value(back.as_ref().iter())),
            Err(_) => put(&mut m, "rt_err", json!(true)),
        }
        m
    });
    emit(t, "qpack_enc", "headers", meas);
}

pub fn dgram_enc(t: &mut Tracer, sid: u64, plen: usize, salt: usize) {
    let payload = crate::gen::pattern(plen, salt);
    let session = SessionId::try_from_session_stream(StreamId::new(
        VarInt::try_from_u64(sid).unwrap(),
    ))
    .expect("valid session id");
    let q = QStreamId::from_session_id(session);
    let d = Datagram::new(q, &payload);
    let size = d.write_size();
    for cap in [0, size.saturating_sub(1), size, size + 1, size + 9] {
        let meas = measure(|| {
            let mut m = Map::new();
            put(&mut m, "sid", v62(sid));
            put(&mut m, "q", v62(q.into_u64()));
            put(&mut m, "plen", json!(plen));
            put(&mut m, "salt", json!(salt));
            put(&mut m, "cap", json!(cap));
            put(&mut m, "size", json!(lib(|| d.write_size())));
            put(&mut m, "hsize", json!(lib(|| Datagram::header_size(q))));
            let mut buf = vec![FILL; cap];
            match lib(|| d.write(&mut buf)) {
                Ok(n) => {
                    put(&mut m, "res", json!("ok"));
                    put(&mut m, "written", json!(n));
                    put(&mut m, "untouched", json!(untouched(&buf[n.min(cap)..])));
                    out_bytes(&mut m, &buf[..n.min(cap)]);
                    if let Ok(back) = lib(|| Datagram::read(&buf[..n.min(cap)])) {
                        put(&mut m, "rt_q", v62(back.qstream_id().into_u64()));
                        put(&mut m, "rt_plen", json!(back.payload().len()));
                        put(&mut m, "rt_same", json!(back.payload() == &payload[..]));
                    }
                }
                Err(_) => {
                    put(&mut m, "res", json!("eob"));
                    put(&mut m, "untouched", json!(untouched(&buf)));
                }
            }
            m
        });
        emit(t, "dgram_enc", "write", meas);
    }
}

// ----------------------------------------------------------------- identifiers

pub fn ids(t: &mut Tracer, v: u64) {
    let meas = measure(|| {
        let mut m = Map::new();
        put(&mut m, "v", v62(v));
        let id = StreamId::new(VarInt::try_from_u64(v).unwrap());
        put(&mut m, "bidi", json!(lib(|| id.is_bidirectional())));
        put(&mut m, "client", json!(lib(|| id.is_client_initiated())));
        put(&mut m, "local_s", json!(lib(|| id.is_local(true))));
        put(&mut m, "local_c", json!(lib(|| id.is_local(false))));
        put(&mut m, "u64", v62(id.into_u64()));
        match lib(|| SessionId::try_from_session_stream(id)) {
            Ok(sid) => {
                put(&mut m, "sid_ok", json!(true));
                put(&mut m, "sid", v62(sid.into_u64()));
                put(&mut m, "sstream", v62(sid.session_stream().into_u64()));
                let q = lib(|| QStreamId::from_session_id(sid));
                put(&mut m, "q", v62(q.into_u64()));
                put(&mut m, "q_le_max", json!(q <= QStreamId::MAX));
                put(&mut m, "back", v62(lib(|| q.into_stream_id()).into_u64()));
                put(&mut m, "back_sid", v62(lib(|| q.into_session_id()).into_u64()));
            }
            Err(_) => put(&mut m, "sid_ok", json!(false)),
        }
        put(&mut m, "res", json!("ok"));
        m
    });
    emit(t, "ids", "stream", meas);
}

// ------------------------------------------------------------------- admission

fn hp_err(e: &HeadersParseError) -> &'static str {
    match e {
        HeadersParseError::MissingMethod => "missing_method",
        HeadersParseError::MethodNotConnect => "method",
        HeadersParseError::MissingScheme => "missing_scheme",
        HeadersParseError::SchemeNotHttps => "scheme",
        HeadersParseError::MissingProtocol => "missing_protocol",
        HeadersParseError::ProtocolNotWebTransport => "protocol",
        HeadersParseError::MissingAuthority => "missing_authority",
        HeadersParseError::MissingPath => "missing_path",
        HeadersParseError::MissingStatusCode => "missing_status",
        HeadersParseError::InvalidStatusCode => "invalid_status",
    }
}

pub fn request_adm(t: &mut Tracer, pairs: &[(&str, &str)]) {
    let pj = Value::Array(
        pairs
            .iter()
            .map(|(k, v)| json!([bytes(k.as_bytes()), bytes(v.as_bytes())]))
            .collect(),
    );
    let meas = measure(|| {
        let mut m = Map::new();
        put(&mut m, "pairs", pj.clone());
        let h: Headers = pairs.iter().map(|(k, v)| (k.to_string(), v.to_string())).collect();
        match lib(|| SessionRequest::try_from(h)) {
            Ok(r) => {
                put(&mut m, "res", json!("ok"));
                put(&mut m, "authority", bytes(r.authority().as_bytes()));
                put(&mut m, "path", bytes(r.path().as_bytes()));
                put(&mut m, "n", json!(r.headers().as_ref().len()));
            }
            Err(e) => {
                put(&mut m, "res", json!("err"));
                put(&mut m, "e", json!(hp_err(&e)));
            }
        }
        m
    });
    emit(t, "request", "try_from", meas);
}

pub fn response_adm(t: &mut Tracer, pairs: &[(&str, &str)]) {
    let pj = Value::Array(
        pairs
            .iter()
            .map(|(k, v)| json!([bytes(k.as_bytes()), bytes(v.as_bytes())]))
            .collect(),
    );
    let meas = measure(|| {
        let mut m = Map::new();
        put(&mut m, "pairs", pj.clone());
        let h: Headers = pairs.iter().map(|(k, v)| (k.to_string(), v.to_string())).collect();
        match lib(|| SessionResponse::try_from(h)) {
            Ok(r) => {
                put(&mut m, "res", json!("ok"));
                let c = lib(|| r.code());
                put(&mut m, "code", json!(c.into_inner()));
                put(&mut m, "success", json!(lib(|| c.is_successful())));
            }
            Err(e) => {
                put(&mut m, "res", json!("err"));
                put(&mut m, "e", json!(hp_err(&e)));
            }
        }
        m
    });
    emit(t, "response", "try_from", meas);
}

pub fn status_str(t: &mut Tracer, s: &str) {
    let meas = measure(|| {
        let mut m = Map::new();
        put(&mut m, "in", bytes(s.as_bytes()));
        match lib(|| s.parse::<StatusCode>()) {
            Ok(c) => {
                put(&mut m, "res", json!("ok"));
                put(&mut m, "code", json!(c.into_inner()));
                put(&mut m, "success", json!(lib(|| c.is_successful())));
                put(&mut m, "shown", bytes(c.to_string().as_bytes()));
            }
            Err(_) => put(&mut m, "res", json!("err")),
        }
        m
    });
    emit(t, "status", "str", meas);
}

pub fn status_int(t: &mut Tracer, width: u32, v: u64) {
    let meas = measure(|| {
        let mut m = Map::new();
        put(&mut m, "w", json!(width));
        put(&mut m, "v", v62(v & ((1u64 << 62) - 1)));
        let r = lib(|| match width {
            8 => StatusCode::try_from(v as u8),
            16 => StatusCode::try_from(v as u16),
            32 => StatusCode::try_from(v as u32),
            _ => StatusCode::try_from(v),
        });
        match r {
            Ok(c) => {
                put(&mut m, "res", json!("ok"));
                put(&mut m, "code", json!(c.into_inner()));
                put(&mut m, "success", json!(lib(|| c.is_successful())));
            }
            Err(_) => put(&mut m, "res", json!("err")),
        }
        m
    });
    emit(t, "status", "int", meas);
}

fn url_err(e: &UrlParseError) -> &'static str {
    match e {
        UrlParseError::SchemeNotHttps => "scheme",
        _ => "url",
    }
}

pub fn url_adm(t: &mut Tracer, url: &str, inserts: &[&str]) {
    let meas = measure(|| {
        let mut m = Map::new();
        put(&mut m, "in", bytes(url.as_bytes()));
        match lib(|| SessionRequest::new(url)) {
            Ok(mut r) => {
                put(&mut m, "res", json!("ok"));
                put(&mut m, "authority", bytes(r.authority().as_bytes()));
                put(&mut m, "path", bytes(r.path().as_bytes()));
                put(&mut m, "hdrs", pairs_value(r.headers().as_ref().iter()));
                let mut ins = Vec::new();
                for name in inserts {
                    let res = lib(|| r.insert(*name, "injected"));
                    ins.push(json!([bytes(name.as_bytes()), res.is_ok()]));
                }
                put(&mut m, "ins", Value::Array(ins));
                put(&mut m, "authority2", bytes(r.authority().as_bytes()));
                put(&mut m, "path2", bytes(r.path().as_bytes()));
                put(&mut m, "hdrs2", pairs_value(r.headers().as_ref().iter()));
            }
            Err(e) => {
                put(&mut m, "res", json!("err"));
                put(&mut m, "e", json!(url_err(&e)));
            }
        }
        m
    });
    emit(t, "url", "new", meas);
}
