//! Sans-IO suites: drive every public decoder/encoder of `wtransport-proto`
//! over generated inputs and write what it did as ndjson events.
#![allow(dead_code)]

use crate::codec::*;
use crate::gen;
use crate::sio::Eof;
use crate::trace::Rng;
use crate::trace::Tracer;

#[derive(Clone, Copy, PartialEq, Eq)]
pub enum Tier {
    Quick,
    Thorough,
}

const EOFS: [Eof; 4] = [Eof::Fin, Eof::Pend, Eof::Reset, Eof::NotConnected];

fn all_sync_decoders(t: &mut Tracer, b: &[u8]) {
    varint_sync(t, b);
    frame_sync(t, b);
    shdr_sync(t, b);
    dgram_dec(t, b);
    settings_dec(t, b);
    qpack_dec(t, b);
    capsule_dec(t, b);
}

fn all_async_decoders(t: &mut Tracer, b: &[u8], script: &[usize], eof: Eof) {
    varint_async(t, b, script, eof);
    frame_async(t, b, script, eof);
    shdr_async(t, b, script, eof);
}

/// C11/C15: every decoder on small strings, mutated corpora and adversarial shapes.
pub fn suite_dec(t: &mut Tracer, tier: Tier, seed: u64) {
    let mut r = Rng::new(seed);
    let all: Vec<u8> = (0..=255u8).collect();

    // -- exhaustive small strings
    all_sync_decoders(t, &[]);
    for eof in EOFS {
        all_async_decoders(t, &[], &[], eof);
    }
    for b in 0..=255u8 {
        all_sync_decoders(t, &[b]);
        for eof in EOFS {
            all_async_decoders(t, &[b], &[], eof);
        }
        all_async_decoders(t, &[b], &[0, 1, 0], Eof::Fin);
    }
    {
        let alphabet: &[u8] = if tier == Tier::Thorough { &all } else { &gen::REPS };
        let mut k = 0usize;
        gen::strings_over(alphabet, 2, &mut |s| {
            all_sync_decoders(t, s);
            all_async_decoders(t, s, &[], Eof::Fin);
            if tier == Tier::Quick || k % 7 == 0 {
                all_async_decoders(t, s, &[1, 0, 1], Eof::Pend);
            }
            k += 1;
        });
    }
    {
        // length 3 over the representatives (quick: a seeded 1/4 of them)
        let mut k = 0u64;
        let pick = r.below(4);
        gen::strings_over(&gen::REPS, 3, &mut |s| {
            k += 1;
            if tier == Tier::Quick && k % 4 != pick {
                return;
            }
            all_sync_decoders(t, s);
            frame_async(t, s, &[1, 1, 1], Eof::Fin);
            shdr_async(t, s, &[2, 0, 1], Eof::Fin);
        });
    }
    if tier == Tier::Thorough {
        let mut k = 0u64;
        let pick = r.below(3);
        gen::strings_over(&gen::REPS, 4, &mut |s| {
            k += 1;
            if k % 3 != pick {
                return;
            }
            frame_sync(t, s);
            settings_dec(t, s);
            qpack_dec(t, s);
            capsule_dec(t, s);
            dgram_dec(t, s);
        });
    }

    // -- varints: every length x boundary values, every truncation, async chunkings
    for v in gen::boundary_values() {
        for n in [1usize, 2, 4, 8] {
            let fits = match n {
                1 => v < 64,
                2 => v < 16384,
                4 => v < (1 << 30),
                _ => true,
            };
            if !fits {
                continue;
            }
            let enc = gen::enc_varint_n(v, n);
            let mut with_tail = enc.clone();
            with_tail.extend_from_slice(&[0xaa, 0x55]);
            varint_sync(t, &enc);
            varint_sync(t, &with_tail);
            for cut in 0..enc.len() {
                varint_sync(t, &enc[..cut]);
                for eof in EOFS {
                    varint_async(t, &enc[..cut], &[1, 0, 1, 1], eof);
                }
            }
            for s in gen::scripts(with_tail.len(), &mut r, 1) {
                varint_async(t, &with_tail, &s, Eof::Fin);
            }
        }
    }
    let nrand = if tier == Tier::Thorough { 20_000 } else { 1_500 };
    for _ in 0..nrand {
        let v = gen::random_v62(&mut r);
        let mut enc = gen::enc_varint(v);
        enc.push(r.byte());
        varint_sync(t, &enc);
        varint_async(t, &enc, &[1 + r.below(3) as usize, 0, 1], Eof::Fin);
    }

    // -- frames: valid corpus, mutations, truncations
    let mut corpus: Vec<Vec<u8>> = Vec::new();
    for ty in [0u64, 1, 4, 0x21, 0x1f * 7 + 0x21, 0x0f, 0x4242] {
        for len in [0usize, 1, 5, 63, 64] {
            corpus.push(gen::frame(ty, &gen::pattern(len, ty as usize)));
        }
    }
    for sid in [0u64, 4, 8, 60, 64, 16380, 16384, 1 << 30, (1 << 62) - 4, 1, 2, 3, 5, 6, 7] {
        corpus.push(gen::wt_frame(sid));
    }
    for base in &corpus {
        frame_sync(t, base);
        for s in gen::scripts(base.len(), &mut r, 1) {
            for eof in [Eof::Fin, Eof::Pend] {
                frame_async(t, base, &s, eof);
            }
        }
        if base.len() <= 12 || tier == Tier::Thorough {
            gen::mutations(base, &mut r, 1, &mut |m| {
                frame_sync(t, m);
                frame_async(t, m, &[2, 0, 3], Eof::Fin);
            });
        } else {
            for cut in 0..base.len() {
                frame_sync(t, &base[..cut]);
                frame_async(t, &base[..cut], &[3, 0, 2], Eof::Fin);
            }
        }
    }
    // declared lengths at and beyond every limit
    for declared in [
        4094u64,
        4095,
        4096,
        4097,
        16383,
        16384,
        (1 << 30) - 1,
        1 << 30,
        1 << 31,
        (1 << 32) + 5,
        (1 << 62) - 1,
    ] {
        for ty in [0u64, 1, 4, 0x21, 0x0f] {
            for have in [0usize, 1, 10] {
                let f = gen::frame_declared(ty, declared, &gen::pattern(have, 3));
                frame_sync(t, &f);
                frame_async(t, &f, &[], Eof::Fin);
                frame_async(t, &f, &[1, 1, 0, 4], Eof::Pend);
            }
            if declared <= 4097 {
                let f = gen::frame_declared(ty, declared, &gen::pattern(declared as usize, 5));
                frame_sync(t, &f);
                frame_async(t, &f, &[1000, 0, 5000], Eof::Fin);
                let mut cut = f.clone();
                cut.pop();
                frame_sync(t, &cut);
                frame_async(t, &cut, &[], Eof::Fin);
            }
        }
    }

    // -- a response's field section all the way to its status code (the client calls code() at once)
    for st in ["", "0", "7", "99", "100", "200", "299", "404", "599", "600", "999", "000", "099", "1000", "65535", "65536",
               "65736", "4294967496", "2e2", "+200", "abc", "20\u{0660}"] {
        response_adm(t, &[(":status", st)]);
        response_adm(t, &[(":status", st), ("x-extra", "1")]);
    }
    response_adm(t, &[]);
    // -- stream headers
    for ty in gen::boundary_values() {
        let mut h = gen::enc_varint(ty);
        shdr_sync(t, &h);
        shdr_async(t, &h, &[1, 0, 1], Eof::Fin);
        uni_upgrade(t, &h, &[1, 0], Eof::Fin);
        h.extend(gen::enc_varint(ty & !3));
        shdr_sync(t, &h);
    }
    for sid in gen::boundary_values() {
        let mut h = gen::enc_varint(0x54);
        h.extend(gen::enc_varint(sid));
        shdr_sync(t, &h);
        uni_upgrade(t, &h, &[1, 0, 1, 0, 1], Eof::Fin);
        for cut in 0..h.len() {
            shdr_sync(t, &h[..cut]);
            for eof in EOFS {
                shdr_async(t, &h[..cut], &[1, 1, 0, 1], eof);
                uni_upgrade(t, &h[..cut], &[], eof);
            }
        }
        let mut tail = h.clone();
        tail.extend_from_slice(b"payload");
        shdr_sync(t, &tail);
        shdr_async(t, &tail, &[], Eof::Fin);
    }

    // -- datagrams
    for q in gen::boundary_values() {
        for n in [1usize, 2, 4, 8] {
            if (n == 1 && q >= 64) || (n == 2 && q >= 16384) || (n == 4 && q >= (1 << 30)) {
                continue;
            }
            let mut d = gen::enc_varint_n(q, n);
            dgram_dec(t, &d);
            d.extend_from_slice(&gen::pattern(1 + (q % 7) as usize, 1));
            dgram_dec(t, &d);
            for cut in 0..n {
                dgram_dec(t, &d[..cut]);
            }
        }
    }

    // -- settings
    let ids = [
        0x00u64, 0x01, 0x02, 0x03, 0x04, 0x05, 0x06, 0x07, 0x08, 0x09, 0x21, 0x33, 0x40,
        0x2b60_3742, 0x2b60_3743, 0xc671_706a, 0x1f * 9 + 0x21, 0x1f * 1_000_000 + 0x21,
        (1 << 62) - 1,
    ];
    let vals = [0u64, 1, 63, 64, 1 << 30, (1 << 62) - 1];
    for a in ids {
        for va in [0u64, 1, (1 << 62) - 1] {
            let mut p = gen::enc_varint(a);
            p.extend(gen::enc_varint(va));
            settings_dec(t, &p);
            for cut in 0..p.len() {
                settings_dec(t, &p[..cut]);
            }
        }
        for b in ids {
            let mut p = gen::enc_varint(a);
            p.extend(gen::enc_varint(*r.pick(&vals)));
            p.extend(gen::enc_varint(b));
            p.extend(gen::enc_varint(*r.pick(&vals)));
            settings_dec(t, &p);
        }
    }
    {
        // what a real peer sends, plus mutations of it
        let mut p = Vec::new();
        for (i, v) in [(0x01u64, 0u64), (0x07, 0), (0x08, 1), (0x2b60_3742, 1), (0x33, 1), (0xc671_706a, 1), (0x1f * 3 + 0x21, 77)] {
            p.extend(gen::enc_varint(i));
            p.extend(gen::enc_varint(v));
        }
        settings_dec(t, &p);
        gen::mutations(&p, &mut r, 1, &mut |m| settings_dec(t, m));
    }

    // -- QPACK
    let nq = if tier == Tier::Thorough { 400 } else { 40 };
    let qc = gen::qpack_corpus(&mut r, nq);
    for (i, sec) in qc.iter().enumerate() {
        qpack_dec(t, sec);
        headers_dec(t, sec);
        if sec.len() <= 40 || (tier == Tier::Thorough && i % 4 == 0) {
            gen::mutations(sec, &mut r, 1, &mut |m| qpack_dec(t, m));
        } else {
            for cut in 0..sec.len().min(24) {
                qpack_dec(t, &sec[..cut]);
            }
        }
    }
    // prefix-integer continuation runs in every position that takes an integer
    for run in 1..=16usize {
        for term in [0x00u8, 0x01, 0x02, 0x03, 0x04, 0x10, 0x40, 0x7e, 0x7f] {
            let mut cont = vec![0xffu8; run];
            cont.push(term);
            let ctx: [(&str, Vec<u8>, Vec<u8>); 7] = [
                ("ric", vec![0xff], vec![0x00]),
                ("base", vec![0x00, 0x7f], vec![]),
                ("index", vec![0x00, 0x00, 0xff], vec![]),
                ("nameidx", vec![0x00, 0x00, 0x5f], vec![0x00]),
                ("vallen", vec![0x00, 0x00, 0x50, 0x7f], vec![]),
                ("namelen", vec![0x00, 0x00, 0x27], vec![0x00]),
                ("vallen2", vec![0x00, 0x00, 0x21, b'a', 0x7f], vec![]),
            ];
            for (_name, pre, post) in ctx {
                let mut s = pre.clone();
                s.extend_from_slice(&cont);
                s.extend_from_slice(&post);
                qpack_dec(t, &s);
                headers_dec(t, &s);
                // same with 0x80 continuation bytes (value stays small)
                let mut z = pre.clone();
                z.extend(std::iter::repeat(0x80u8).take(run));
                z.push(term);
                z.extend_from_slice(&post);
                qpack_dec(t, &z);
            }
        }
    }
    // seeded continuation runs of every length with arbitrary payload bits
    for run in 1..=12usize {
        for _ in 0..6 {
            let mut cont: Vec<u8> = (0..run).map(|_| 0x80 | (r.byte() & 0x7f)).collect();
            cont.push(r.byte() & 0x7f);
            for pre in [vec![0x00u8, 0x00, 0xff], vec![0x00, 0x00, 0x5f], vec![0x00, 0x00, 0x50, 0x7f], vec![0x00, 0x00, 0x27]] {
                let mut z = pre.clone();
                z.extend_from_slice(&cont);
                z.extend_from_slice(&[0x00, 0x00]);
                qpack_dec(t, &z);
            }
        }
    }
    for idx in [0u64, 62, 63, 64, 97, 98, 99, 100, 127, 128, 255, 1 << 14, 1 << 31, u32::MAX as u64 + 1] {
        qpack_dec(t, &gen::q_section(&[gen::q_indexed_static(idx)]));
        qpack_dec(
            t,
            &gen::q_section(&[gen::q_literal_nameref_static(idx, b"v", false)]),
        );
    }
    // dynamic-table references, post-base forms, string lengths beyond the input
    for b in [0x80u8, 0x81, 0xbf, 0x10, 0x1f, 0x40, 0x4f, 0x00, 0x0f] {
        qpack_dec(t, &[0, 0, b, 0x01, b'a']);
    }
    for l in [1u64, 2, 126, 127, 128, 4096, 1 << 20, 1 << 40] {
        let mut s = vec![0u8, 0u8];
        s.extend(gen::prefix_int(0x20, 3, 1));
        s.push(b'n');
        s.extend(gen::prefix_int(0x00, 7, l));
        s.push(b'x');
        qpack_dec(t, &s);
        let mut s = vec![0u8, 0u8];
        s.extend(gen::prefix_int(0x20, 3, l));
        s.push(b'n');
        qpack_dec(t, &s);
    }
    // invalid UTF-8 and invalid Huffman
    for bad in [&[0xffu8][..], &[0xc3], &[0xe2, 0x82], &[0xed, 0xa0, 0x80], &[0xc0, 0xaf], &[0xf4, 0x90, 0x80, 0x80]] {
        qpack_dec(t, &gen::q_section(&[gen::q_literal_literal(b"x", bad, false, false)]));
        qpack_dec(t, &gen::q_section(&[gen::q_literal_literal(bad, b"x", false, false)]));
    }
    for hb in [&[0xffu8, 0xff, 0xff, 0xff][..], &[0xff, 0xff, 0xff, 0xfc], &[0x00], &[0x1f], &[0xfe]] {
        let mut s = vec![0u8, 0u8, 0x21, b'n'];
        s.extend(gen::prefix_int(0x80, 7, hb.len() as u64));
        s.extend_from_slice(hb);
        qpack_dec(t, &s);
    }

    // -- capsules
    let reasons: Vec<Vec<u8>> = vec![
        vec![],
        b"bye".to_vec(),
        "gr\u{fc}\u{df} \u{1f44b}".as_bytes().to_vec(),
        vec![b'r'; 1023],
        vec![b'r'; 1024],
        vec![b'r'; 1025],
        vec![0xff, 0xfe],
        vec![0xe2, 0x82],
        "\u{e9}".repeat(512).into_bytes(),        // 1024 bytes, 512 characters
        "\u{e9}".repeat(513).into_bytes(),        // 1026 bytes, 513 characters: too long in bytes
        "\u{e9}".repeat(600).into_bytes(),
        "\u{1f600}".repeat(256).into_bytes(),     // 1024 bytes, 256 characters
        "\u{1f600}".repeat(257).into_bytes(),
    ];
    for code in [0u32, 1, 255, 256, 65535, 1 << 31, u32::MAX] {
        for reason in &reasons {
            let mut v = code.to_be_bytes().to_vec();
            v.extend_from_slice(reason);
            let mut c = gen::enc_varint(0x2843);
            c.extend(gen::enc_varint(v.len() as u64));
            c.extend_from_slice(&v);
            capsule_dec(t, &c);
            if reason.len() < 16 {
                gen::mutations(&c, &mut r, 0, &mut |m| capsule_dec(t, m));
            }
        }
    }
    for l in [0u64, 1, 2, 3, 4, 5, 4096, 1 << 30, (1 << 62) - 1] {
        let mut c = gen::enc_varint(0x2843);
        c.extend(gen::enc_varint(l));
        c.extend_from_slice(&[0, 0, 0, 1, b'x']);
        capsule_dec(t, &c);
    }
    for ty in [0u64, 1, 0x2842, 0x2844, 0x21, 0x78ae, (1 << 62) - 1] {
        let mut c = gen::enc_varint(ty);
        c.extend(gen::enc_varint(4));
        c.extend_from_slice(&[0, 0, 0, 9]);
        capsule_dec(t, &c);
    }
}

/// C12a/C13a/C15: the stream typestates on frame sequences.
pub fn suite_ts(t: &mut Tracer, tier: Tier, seed: u64) {
    let mut r = Rng::new(seed ^ 0x7571);
    // token alphabet -> bytes
    let toks: Vec<(&str, Vec<u8>)> = vec![
        ("data", gen::frame(0, b"dd")),
        ("data0", gen::frame(0, b"")),
        ("headers", gen::frame(1, &[0, 0, 0xd1])),
        ("settings", gen::frame(4, &[0x08, 0x01])),
        ("wt", gen::wt_frame(0)),
        ("wt8", gen::wt_frame(8)),
        ("wtbad", gen::wt_frame(1)),
        ("wtbad2", gen::wt_frame(6)),
        ("grease", gen::frame(0x21, b"g")),
        ("grease2", gen::frame(0x1f * 1000 + 0x21, b"")),
        ("unk", gen::frame(0x0f, b"")),
        ("unk2", gen::frame(0x0f, &[0x00, 0x00])),
        ("unk3", gen::frame(0x4242, &gen::frame(4, &[0x08, 0x01]))),
        ("unk4", gen::frame(0x0042_4242, &gen::wt_frame(1))),
        ("unk5", gen::frame(0x3f, &[0x00, 0x05, 0x01])),
        ("unk8", gen::frame((1 << 40) + 3, b"abc")),
        ("alias_data", gen::frame(1 << 32, &[0x68, 0x43, 0x04, 0, 0, 0, 1])),
        ("alias_headers", gen::frame((1 << 32) + 1, &[0, 0])),
        ("alias_settings", gen::frame((1 << 32) + 4, &[0x08, 0x01])),
        ("alias_wt", gen::frame((1 << 32) + 0x41, &[0x00])),
        ("alias16", gen::frame(0x1_0004, b"")),
        ("alias8", gen::frame(0x104, &[0x01, 0x00])),
        ("over", gen::frame_declared(0, 4097, b"xx")),
        ("unk_over", gen::frame_declared(0x0f, 4097, &gen::frame(0, b"smuggled"))),
        ("unk_over2", gen::frame_declared(0x0d, 70_000, &gen::frame(4, &[0x08, 0x01]))),
        ("over4", gen::frame_declared(4, 1 << 20, b"")),
        ("trunc", gen::frame_declared(0, 5, b"ab")),
        ("trunc1", vec![0x40]),
    ];
    let depth = if tier == Tier::Thorough { 4 } else { 3 };
    let mut idx = vec![0usize; 0];
    // all sequences of length 0..=depth (quick: seeded subset at the deepest level)
    let n = toks.len();
    let mut total = 0u64;
    for len in 0..=depth {
        idx.clear();
        idx.resize(len, 0);
        loop {
            total += 1;
            let deep = len == depth;
            let keep = if !deep {
                true
            } else if tier == Tier::Thorough {
                r.below(8) == 0
            } else {
                r.below(6) == 0
            };
            if keep {
                let mut bytes = Vec::new();
                for i in &idx {
                    bytes.extend_from_slice(&toks[*i].1);
                }
                for role in Role::ALL {
                    ts_sync(t, role, "slice", &bytes);
                    ts_sync(t, role, "frombuf", &bytes);
                    if len <= 2 || total % 7 == 0 {
                        ts_incr(t, role, &bytes, 1);
                        ts_incr(t, role, &bytes, 2);
                    }
                    ts_async(t, role, &bytes, &[], Eof::Fin);
                    if len <= 2 {
                        for s in gen::scripts(bytes.len(), &mut r, 1) {
                            ts_async(t, role, &bytes, &s, Eof::Fin);
                        }
                        ts_async(t, role, &bytes, &[1, 0, 2], Eof::Pend);
                        ts_async(t, role, &bytes, &[3], Eof::Reset);
                        ts_async(t, role, &bytes, &[2, 2], Eof::NotConnected);
                    }
                }
            }
            let mut k = len;
            let mut done = true;
            while k > 0 {
                k -= 1;
                idx[k] += 1;
                if idx[k] < n {
                    done = false;
                    break;
                }
                idx[k] = 0;
            }
            if done {
                break;
            }
        }
    }
    let _ = total;
    // every prefix of a valid exchange, on every role
    let mut exch = Vec::new();
    for name in ["grease", "headers", "unk3", "data", "grease2", "data0"] {
        exch.extend_from_slice(&toks.iter().find(|x| x.0 == name).unwrap().1);
    }
    for cut in 0..=exch.len() {
        for role in Role::ALL {
            ts_sync(t, role, "slice", &exch[..cut]);
            ts_sync(t, role, "frombuf", &exch[..cut]);
            ts_incr(t, role, &exch[..cut], 1 + cut % 3);
            for eof in EOFS {
                ts_async(t, role, &exch[..cut], &[1, 2, 0, 3], eof);
            }
        }
    }
    // unknown and reserved settings inserted among known ones: the values of skipped settings look
    // like identifiers (reserved, known, GREASE) and must never be re-read as such
    let known: [(u64, u64); 3] = [(0x08, 1), (0x33, 1), (0x2b60_3742, 1)];
    // (incl. wide ids whose low 8 / 16 / 32 bits are a RESERVED id 0, 2, 3, 4, 5: still just unknown)
    let unknown_ids = [0x09u64, 0x0a, 0x40, 0x1234, 0x12_3456, (1 << 40) + 9, (1 << 32) + 0x08, 0x108, 0x1_0033,
                       0x1_0000, 0x1_0002, 0x1_0003, 0x2_0004, 0x1_0005, 0x102, 0x1_0000_0000, (1 << 32) + 5, (1 << 40) + 2];
    let tricky_vals = [0x00u64, 0x02, 0x04, 0x05, 0x08, 0x33, 0x21, 0x2b60_3742, 0x1234, 1, (1 << 62) - 1];
    for uid in unknown_ids {
        for val in tricky_vals {
            for pos in 0..=known.len() {
                let mut p = Vec::new();
                for (i, (k, v)) in known.iter().enumerate() {
                    if i == pos {
                        p.extend(gen::enc_varint(uid));
                        p.extend(gen::enc_varint(val));
                    }
                    p.extend(gen::enc_varint(*k));
                    p.extend(gen::enc_varint(*v));
                }
                if pos == known.len() {
                    p.extend(gen::enc_varint(uid));
                    p.extend(gen::enc_varint(val));
                }
                settings_dec(t, &p);
            }
        }
    }
    for g in [0x21u64, 0x21 + 0x1f * 7, 0x21 + 0x1f * 1_000_000_007] {
        for val in tricky_vals {
            let mut p = gen::enc_varint(g);
            p.extend(gen::enc_varint(val));
            p.extend(gen::enc_varint(0x08));
            p.extend(gen::enc_varint(1));
            settings_dec(t, &p);
        }
    }
    // a close capsule followed by more bytes / another capsule in the same DATA payload: its own length bounds it
    for tail in [vec![0x00u8], vec![0x21, 0x02, b'z', b'z'], gen::enc_varint(0x1234).into_iter().chain([0x00]).collect::<Vec<u8>>()] {
        let mut c = gen::enc_varint(0x2843);
        let body = [0u8, 0, 0, 9, b'b', b'y', b'e'];
        c.extend(gen::enc_varint(body.len() as u64));
        c.extend_from_slice(&body);
        c.extend_from_slice(&tail);
        capsule_dec(t, &c);
    }
    // unknown capsule types (payloads that look like close capsules) must be ignored
    for ty in [0x00u64, 0x2842, 0x2844, 0x78ae, 0x12843, (1 << 32) + 0x2843, 0x21] {
        let mut c = gen::enc_varint(ty);
        let mut inner = gen::enc_varint(0x2843);
        inner.extend(gen::enc_varint(4));
        inner.extend_from_slice(&[0, 0, 0, 7]);
        c.extend(gen::enc_varint(inner.len() as u64));
        c.extend_from_slice(&inner);
        capsule_dec(t, &c);
    }
    // big payloads through every path
    for len in [4095usize, 4096] {
        for ty in [0u64, 1, 0x21, 0x0f] {
            let f = gen::frame(ty, &gen::pattern(len, len));
            for role in Role::ALL {
                ts_sync(t, role, "frombuf", &f);
                ts_async(t, role, &f, &[100, 0, 4000], Eof::Fin);
            }
        }
    }
}

/// C14: encoders, sizes, round trips.
pub fn suite_enc(t: &mut Tracer, tier: Tier, seed: u64) {
    let mut r = Rng::new(seed ^ 0xe9c);
    // -- varints
    for v in gen::boundary_values() {
        varint_enc(t, v, &[1, 0, 1]);
    }
    for v in [1u64 << 62, (1 << 62) + 1, u64::MAX] {
        varint_enc(t, v, &[]);
    }
    let n = if tier == Tier::Thorough { 40_000 } else { 2_500 };
    for _ in 0..n {
        let v = gen::random_v62(&mut r);
        let s = [1 + r.below(4) as usize, 0, 1 + r.below(8) as usize];
        varint_enc(t, v, &s);
    }
    // -- frames
    let mut lens: Vec<usize> = Vec::new();
    if tier == Tier::Thorough {
        lens.extend(0..=4096);
    } else {
        lens.extend(0..=140);
        lens.extend([255, 256, 1023, 1024, 4095, 4096]);
        for _ in 0..24 {
            lens.push(141 + r.below(3950) as usize);
        }
    }
    lens.extend([4097, 16383, 16384, 16385, 70_000]);
    for (i, len) in lens.iter().enumerate() {
        let kinds = [
            FKind::Data,
            FKind::Headers,
            FKind::Settings,
            FKind::Grease(0x21 + 0x1f * (i as u64 % 5) * 1000),
        ];
        if tier == Tier::Thorough && *len > 300 {
            let k = kinds[i % 4];
            frame_enc(t, k, *len, i, &[1, 1, 0, 7, 100]);
        } else {
            for k in kinds {
                frame_enc(t, k, *len, i, &[1, 1, 0, 7, 100]);
            }
        }
    }
    for g in [0x21u64, 0x21 + 0x1f, 0x21 + 0x1f * 1000, 0x21 + 0x1f * 100_000_000, 0x21 + 0x1f * ((1u64 << 57) - 2)] {
        frame_enc(t, FKind::Grease(g), 3, 1, &[1, 0, 1]);
    }
    let sids: Vec<u64> = gen::boundary_values()
        .into_iter()
        .filter(|v| v & 3 == 0)
        .collect();
    for sid in &sids {
        frame_enc(t, FKind::Wt(*sid), 0, 0, &[1, 0, 1]);
        shdr_enc(t, Some(*sid), &[1, 0, 1, 0]);
        for plen in [0usize, 1, 2, 100, 1200] {
            dgram_enc(t, *sid, plen, (*sid % 97) as usize);
        }
    }
    shdr_enc(t, None, &[0, 1]);
    for _ in 0..(if tier == Tier::Thorough { 4000 } else { 300 }) {
        let sid = gen::random_v62(&mut r) & !3;
        frame_enc(t, FKind::Wt(sid), 0, 0, &[2, 0, 9]);
        shdr_enc(t, Some(sid), &[3, 0]);
        dgram_enc(t, sid, r.below(64) as usize, r.below(50) as usize);
    }
    // -- settings: every subset of the builder methods, seeded values and orders
    let methods = [
        "qpack_max_table_capacity",
        "qpack_blocked_streams",
        "enable_connect_protocol",
        "enable_webtransport",
        "enable_h3_datagrams",
        "webtransport_max_sessions",
    ];
    let vals = [0u64, 1, 63, 64, 16383, 16384, (1 << 30) - 1, 1 << 30, (1 << 62) - 1];
    for mask in 0u32..64 {
        let reps = if tier == Tier::Thorough { 6 } else { 2 };
        for _ in 0..reps {
            let mut set: Vec<(&str, u64)> = Vec::new();
            for (i, m) in methods.iter().enumerate() {
                if mask & (1 << i) != 0 {
                    set.push((m, *r.pick(&vals)));
                }
            }
            // seeded order; occasionally call a method twice (last one wins)
            for i in (1..set.len()).rev() {
                let j = r.below(i as u64 + 1) as usize;
                set.swap(i, j);
            }
            if !set.is_empty() && r.below(4) == 0 {
                let again = set[0].0;
                set.push((again, *r.pick(&vals)));
            }
            settings_enc(t, &set);
        }
    }
    // -- header maps
    let names_static: [&str; 8] = [
        ":authority", ":path", ":method", ":scheme", ":status", "origin", "user-agent", "content-type",
    ];
    let vals_static: [&str; 8] = ["", "/", "CONNECT", "https", "200", "", "", "text/plain"];
    let mut maps: Vec<Vec<(Vec<u8>, Vec<u8>)>> = Vec::new();
    maps.push(vec![]);
    for i in 0..8 {
        maps.push(vec![(names_static[i].into(), vals_static[i].into())]);
        maps.push(vec![(names_static[i].into(), "other-value".into())]);
    }
    maps.push(vec![
        (":method".into(), "CONNECT".into()),
        (":scheme".into(), "https".into()),
        (":protocol".into(), "webtransport".into()),
        (":authority".into(), "localhost:4433".into()),
        (":path".into(), "/a/b?c=d".into()),
        ("origin".into(), "https://example.org".into()),
        ("zz-last".into(), "1".into()),
        ("aa-first".into(), "2".into()),
    ]);
    maps.push(vec![(":status".into(), "403".into()), ("x".into(), "y".into())]);
    // field names that sort BEFORE ':' (0x3a) as bytes: digits and ! # $ % & ' * + - .
    // (pseudo-header fields still come first: RFC 9114 4.3)
    for first in ["1st-party", "0", "9z", "-x", "#tag", "!bang", "*star", "+plus", ".dot", "$d", "%p", "&a", "'q"] {
        maps.push(vec![
            (":method".into(), "CONNECT".into()),
            (":scheme".into(), "https".into()),
            (":protocol".into(), "webtransport".into()),
            (":authority".into(), "localhost".into()),
            (":path".into(), "/".into()),
            (first.into(), "v".into()),
            ("zz".into(), "w".into()),
        ]);
        maps.push(vec![(":status".into(), "200".into()), (first.into(), "v".into())]);
    }
    for len in [0usize, 1, 5, 6, 7, 8, 9, 126, 127, 128, 129, 300] {
        // Huffman-shrinking (lower-case letters) and non-shrinking (symbols) strings
        let shrink: Vec<u8> = (0..len).map(|i| b"aeiost"[i % 6]).collect();
        let noshrink: Vec<u8> = (0..len).map(|i| b"#$<>{}~^"[i % 8]).collect();
        for s in [&shrink, &noshrink] {
            let mut name = b"x-".to_vec();
            name.extend_from_slice(if s == &shrink { &shrink } else { b"n" });
            maps.push(vec![(name.clone(), s.clone())]);
            maps.push(vec![("cookie".into(), s.clone())]);
        }
        if len >= 1 {
            // a literal name of exactly `len` bytes
            let name: Vec<u8> = (0..len).map(|i| b"qxzjkw"[i % 6]).collect();
            maps.push(vec![(name, b"v".to_vec())]);
        }
    }
    for (nm, val) in [("Age", "0"), ("AGE", "7"), ("Content-Type", "text/plain"), ("Origin", "x"), (":Method", "CONNECT"),
                      ("Accept", "*/*"), ("age", "0"), ("Age ", "0")] {
        maps.push(vec![(nm.into(), val.into())]);
    }
    maps.push(vec![("age".into(), "1".into()), ("Age".into(), "2".into()), ("AGE".into(), "3".into())]);
    for s in ["h\u{e9}", "\u{4e16}\u{754c}", "\u{1f600}\u{1f600}", "a\u{0}b", "UPPER Case", " lead", "trail "] {
        maps.push(vec![("x-utf8".into(), s.as_bytes().to_vec())]);
        maps.push(vec![(s.as_bytes().to_vec(), b"v".to_vec())]);
    }
    const ALPHA: &[u8] = b"abcdefghijklmnopqrstuvwxyz0123456789-_.:/?=&% ;,*ABCXYZ#{}~";
    let nrand = if tier == Tier::Thorough { 1500 } else { 150 };
    for _ in 0..nrand {
        let mut m: Vec<(Vec<u8>, Vec<u8>)> = Vec::new();
        for _ in 0..r.below(6) {
            let name: Vec<u8> = match r.below(3) {
                0 => names_static[r.below(8) as usize].into(),
                _ => {
                    let l = 1 + r.below(14) as usize;
                    let mut n: Vec<u8> = (0..l).map(|_| *r.pick(&ALPHA[..38])).collect();
                    if r.below(5) == 0 {
                        n.insert(0, b':');
                    }
                    n
                }
            };
            if m.iter().any(|(k, _)| *k == name) {
                continue;
            }
            let lv = match r.below(4) {
                0 => 0,
                1 => 126 + r.below(4) as usize,
                _ => r.below(30) as usize,
            };
            let value: Vec<u8> = (0..lv).map(|_| *r.pick(ALPHA)).collect();
            m.push((name, value));
        }
        maps.push(m);
    }
    for m in &maps {
        qpack_enc(t, m);
    }
}

/// C17 (sans-IO part): identifier algebra.
pub fn suite_ids(t: &mut Tracer, tier: Tier, seed: u64) {
    let mut r = Rng::new(seed ^ 0x1d5);
    for v in gen::boundary_values() {
        for low in 0..4u64 {
            ids(t, (v & !3) | low);
        }
    }
    for v in 0..2048u64 {
        ids(t, v);
    }
    let n = if tier == Tier::Thorough { 100_000 } else { 6_000 };
    for _ in 0..n {
        ids(t, gen::random_v62(&mut r));
    }
    // quarter ids through the datagram reader, up to and beyond 2^60-1
    let mut qs = gen::boundary_values();
    for d in 0..6u64 {
        qs.push((1 << 60) - 3 + d);
    }
    for _ in 0..(n / 4) {
        qs.push(gen::random_v62(&mut r));
    }
    for q in qs {
        let mut d = gen::enc_varint(q);
        d.extend_from_slice(&[1, 2, 3]);
        dgram_dec(t, &d);
    }
}

/// C18 (sans-IO part): admission of requests, responses, status codes, URLs.
pub fn suite_adm(t: &mut Tracer, tier: Tier, seed: u64) {
    let mut r = Rng::new(seed ^ 0xad3);
    // every pseudo-header missing / wrong / right
    let right = [
        (":method", "CONNECT"),
        (":scheme", "https"),
        (":protocol", "webtransport"),
        (":authority", "example.com:443"),
        (":path", "/x?y=1"),
    ];
    let wrong = [
        (":method", "GET"),
        (":scheme", "http"),
        (":protocol", "websocket"),
        (":authority", ""),
        (":path", ""),
    ];
    for code in 0..243u32 {
        let mut c = code;
        let mut pairs: Vec<(&str, &str)> = Vec::new();
        for i in 0..5 {
            match c % 3 {
                0 => {}
                1 => pairs.push(wrong[i]),
                _ => pairs.push(right[i]),
            }
            c /= 3;
        }
        request_adm(t, &pairs);
        let mut with_extra = pairs.clone();
        with_extra.push(("origin", "https://o.example"));
        with_extra.push(("method", "CONNECT"));
        with_extra.push((":Method", "CONNECT"));
        with_extra.push(("x-extra", ""));
        request_adm(t, &with_extra);
    }
    for (k, v) in [
        (":method", "connect"),
        (":method", "CONNECT "),
        (":scheme", "HTTPS"),
        (":scheme", "https "),
        (":protocol", "WebTransport"),
        (":protocol", "webtransport2"),
    ] {
        let mut pairs: Vec<(&str, &str)> = right.to_vec();
        pairs.retain(|(n, _)| *n != k);
        pairs.push((k, v));
        request_adm(t, &pairs);
    }
    // status strings: every integer 0..65535 and the odd ones out
    for n in 0..=65_535u32 {
        status_str(t, &n.to_string());
    }
    let odd = [
        "", " ", "+", "-", "+200", "-200", " 200", "200 ", "0200", "00200", "000", "2 00", "2e2",
        "200.0", "0x200", "abc", "20a", "\u{0662}\u{0660}\u{0660}", "65536", "65537", "99999",
        "100000", "4294967296", "18446744073709551616", "99", "100", "101", "199", "200", "299",
        "300", "599", "600", "+99", "+600", "+0", "-0", "+", "++200", "٢٠٠",
        // values whose low 16 / 32 bits are a valid status
        "65636", "65736", "66135", "131272", "4294967496", "4294967396", "281474976710856", "999", "099", "0999",
    ];
    for s in odd {
        status_str(t, s);
        response_adm(t, &[(":status", s)]);
        response_adm(t, &[(":status", s), ("x-extra", "1")]);
    }
    response_adm(t, &[]);
    response_adm(t, &[("status", "200")]);
    response_adm(t, &[(":Status", "200")]);
    let step = if tier == Tier::Thorough { 1 } else { 13 };
    let mut n = 0u32;
    while n <= 1200 {
        let s = n.to_string();
        response_adm(t, &[(":status", &s)]);
        n += if n < 700 && (n % 100 < 3 || n % 100 > 96) { 1 } else { step };
    }
    // integer constructors
    for w in [8u32, 16, 32, 64] {
        let mut vs: Vec<u64> = vec![0, 1, 99, 100, 101, 199, 200, 201, 255, 256, 299, 300, 599, 600, 601, 65535, 65536, 65636, 65736, (1 << 32) + 200, (1 << 32) + 100, u32::MAX as u64, (1 << 62) - 1];
        for _ in 0..200 {
            vs.push(r.below(1200));
        }
        for v in vs {
            status_int(t, w, v);
        }
    }
    // URLs and reserved names
    let reserved_like = [
        ":method", ":scheme", ":protocol", ":authority", ":path", ":status", ":Method", "method",
        ":path ", " :path", ":paths", ":", "", "origin", "user-agent", ":METHOD", "x-custom",
    ];
    let hosts = ["example.com", "a.b-c.example", "localhost", "127.0.0.1", "10.1.2.3", "[::1]", "[2001:db8::1]"];
    let ports = ["", ":443", ":4433", ":1", ":65535", ":80"];
    let paths = ["", "/", "/a", "/a/b/c", "/a.b-c_d~e", "/chat/room1/"];
    let queries = ["", "?", "?a=b", "?a=b&c=d", "?x"];
    for h in hosts {
        for p in ports {
            for pa in paths {
                for q in queries {
                    let url = format!("https://{h}{p}{pa}{q}");
                    url_adm(t, &url, &reserved_like);
                }
            }
        }
    }
    for u in [
        "http://example.com/", "wss://example.com/", "ftp://example.com/x", "HTTPS://example.com/",
        "https:/example.com", "https//example.com", "example.com", "", "https://", "https://:443/",
        "https://exa mple.com/", "https://example.com:99999/", "https://[::1/", "//example.com/",
        "https://user:pw@example.com/p",
    ] {
        url_adm(t, u, &[":path"]);
    }
}
