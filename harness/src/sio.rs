//! Scripted asynchronous sources/sinks and a hand-driven poller.
#![allow(dead_code)]

use std::future::Future;
use std::pin::Pin;
use std::task::Context;
use std::task::Poll;
use std::task::Waker;

#[derive(Clone, Copy, Debug, PartialEq, Eq)]
pub enum Eof {
    Fin,
    Reset,
    NotConnected,
    Pend,
}

impl Eof {
    pub fn name(self) -> &'static str {
        match self {
            Eof::Fin => "fin",
            Eof::Reset => "reset",
            Eof::NotConnected => "notconn",
            Eof::Pend => "pend",
        }
    }
}

/// An `AsyncRead` source that hands out `data` following `script`:
/// each entry is the maximum size of the next successful read; `0` means
/// "report Pending once". When the script is exhausted reads are unbounded.
/// When `data` is exhausted the source behaves as `eof` says.
pub struct ScriptedReader {
    pub data: Vec<u8>,
    pub pos: usize,
    pub script: Vec<usize>,
    pub step: usize,
    pub eof: Eof,
    pub polls: usize,
}

impl ScriptedReader {
    pub fn new(data: &[u8], script: &[usize], eof: Eof) -> Self {
        Self {
            data: data.to_vec(),
            pos: 0,
            script: script.to_vec(),
            step: 0,
            eof,
            polls: 0,
        }
    }
}

impl wtransport_proto::bytes::AsyncRead for ScriptedReader {
    fn poll_read(
        mut self: Pin<&mut Self>,
        cx: &mut Context<'_>,
        buf: &mut [u8],
    ) -> Poll<std::io::Result<usize>> {
        self.polls += 1;
        if buf.is_empty() {
            return Poll::Ready(Ok(0));
        }
        // a scripted Pending happens whether or not data is left: "some bytes, not ready, then the end"
        // is a different history from "some bytes, then the end"
        if self.step < self.script.len() && self.script[self.step] == 0 {
            self.step += 1;
            cx.waker().wake_by_ref();
            return Poll::Pending;
        }
        if self.pos >= self.data.len() {
            return match self.eof {
                Eof::Fin => Poll::Ready(Ok(0)),
                Eof::Reset => Poll::Ready(Err(std::io::Error::from(
                    std::io::ErrorKind::ConnectionReset,
                ))),
                Eof::NotConnected => Poll::Ready(Err(std::io::Error::from(
                    std::io::ErrorKind::NotConnected,
                ))),
                Eof::Pend => Poll::Pending,
            };
        }
        let limit = if self.step < self.script.len() {
            let s = self.script[self.step];
            self.step += 1;
            if s == 0 {
                cx.waker().wake_by_ref();
                return Poll::Pending;
            }
            s
        } else {
            usize::MAX
        };
        let n = limit.min(buf.len()).min(self.data.len() - self.pos);
        let pos = self.pos;
        buf[..n].copy_from_slice(&self.data[pos..pos + n]);
        self.pos += n;
        Poll::Ready(Ok(n))
    }
}

/// An `AsyncWrite` sink accepting at most `script[k]` bytes on the k-th write
/// (`0` = Pending once); afterwards unbounded. After `fail_at` accepted bytes
/// it fails with the given kind.
pub struct ScriptedWriter {
    pub data: Vec<u8>,
    pub script: Vec<usize>,
    pub step: usize,
}

impl ScriptedWriter {
    pub fn new(script: &[usize]) -> Self {
        Self {
            data: Vec::new(),
            script: script.to_vec(),
            step: 0,
        }
    }
}

impl wtransport_proto::bytes::AsyncWrite for ScriptedWriter {
    fn poll_write(
        mut self: Pin<&mut Self>,
        cx: &mut Context<'_>,
        buf: &[u8],
    ) -> Poll<std::io::Result<usize>> {
        let limit = if self.step < self.script.len() {
            let s = self.script[self.step];
            self.step += 1;
            if s == 0 {
                cx.waker().wake_by_ref();
                return Poll::Pending;
            }
            s
        } else {
            usize::MAX
        };
        let n = limit.min(buf.len());
        self.data.extend_from_slice(&buf[..n]);
        Poll::Ready(Ok(n))
    }
}

struct FlagWaker(std::sync::atomic::AtomicBool);

impl std::task::Wake for FlagWaker {
    fn wake(self: std::sync::Arc<Self>) {
        self.0.store(true, std::sync::atomic::Ordering::SeqCst);
    }
    fn wake_by_ref(self: &std::sync::Arc<Self>) {
        self.0.store(true, std::sync::atomic::Ordering::SeqCst);
    }
}

/// Polls `fut` until it completes, until it returns Pending without having been
/// woken (it is waiting for the outside world: `None`), or `max_polls` is hit.
pub fn drive<F: Future>(fut: F, max_polls: usize) -> Option<F::Output> {
    let mut fut = Box::pin(fut);
    let flag = std::sync::Arc::new(FlagWaker(std::sync::atomic::AtomicBool::new(false)));
    let waker = Waker::from(flag.clone());
    let mut cx = Context::from_waker(&waker);
    for _ in 0..max_polls {
        flag.0.store(false, std::sync::atomic::Ordering::SeqCst);
        if let Poll::Ready(v) = fut.as_mut().poll(&mut cx) {
            return Some(v);
        }
        if !flag.0.load(std::sync::atomic::Ordering::SeqCst) {
            return None;
        }
    }
    None
}
