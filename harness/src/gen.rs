//! Input generators. These build *inputs* only (valid encodings, mutations,
//! adversarial shapes); they never say what a decoder should answer.
#![allow(dead_code)]

use crate::trace::Rng;

pub fn enc_varint(v: u64) -> Vec<u8> {
    let n = if v < 64 {
        1
    } else if v < 16384 {
        2
    } else if v < (1 << 30) {
        4
    } else {
        8
    };
    enc_varint_n(v, n)
}

/// `n`-byte encoding of `v` (possibly non-shortest; the caller guarantees it fits).
pub fn enc_varint_n(v: u64, n: usize) -> Vec<u8> {
    let tag: u8 = match n {
        1 => 0,
        2 => 1,
        4 => 2,
        _ => 3,
    };
    let mut out = vec![0u8; n];
    for i in 0..n {
        out[n - 1 - i] = (v >> (8 * i)) as u8;
    }
    out[0] = (out[0] & 0x3f) | (tag << 6);
    out
}

pub fn frame(ty: u64, payload: &[u8]) -> Vec<u8> {
    let mut out = enc_varint(ty);
    out.extend(enc_varint(payload.len() as u64));
    out.extend_from_slice(payload);
    out
}

pub fn frame_declared(ty: u64, declared_len: u64, payload: &[u8]) -> Vec<u8> {
    let mut out = enc_varint(ty);
    out.extend(enc_varint(declared_len));
    out.extend_from_slice(payload);
    out
}

pub fn wt_frame(sid: u64) -> Vec<u8> {
    let mut out = enc_varint(0x41);
    out.extend(enc_varint(sid));
    out
}

pub fn pat(i: usize, salt: usize) -> u8 {
    ((i * 31 + 7 + salt * 13) % 251) as u8
}

pub fn pattern(len: usize, salt: usize) -> Vec<u8> {
    (0..len).map(|i| pat(i, salt)).collect()
}

/// Representatives of the byte partition the wire formats care about.
pub const REPS: [u8; 25] = [
    0x00, 0x01, 0x02, 0x03, 0x04, 0x05, 0x06, 0x08, 0x10, 0x20, 0x21, 0x33, 0x3f, 0x40, 0x41,
    0x50, 0x54, 0x5f, 0x7f, 0x80, 0xa0, 0xbf, 0xc0, 0xd0, 0xff,
];

/// Interesting 62-bit magnitudes.
pub fn boundary_values() -> Vec<u64> {
    let mut v = vec![0u64, 1, 2, 3, 4, 5, 6, 7, 8];
    for p in [6u32, 14, 30, 31, 32, 60, 62] {
        let b = 1u64 << p;
        for d in -4i64..=4 {
            let x = b as i64 + d;
            if x >= 0 && (x as u64) < (1u64 << 62) {
                v.push(x as u64);
            }
        }
    }
    for d in 1..=9u64 {
        v.push((1u64 << 62) - d);
    }
    v.extend([
        0x21, 0x40, 0x41, 0x54, 0x33, 0x2843, 0x2b60_3742, 0xc671_706a, 0x0f, 0x3f, 0x4242,
        0x0042_4242, 0x4040, 0x1f * 5 + 0x21, 0x1f * 1000 + 0x21,
    ]);
    // values that alias a registered type / id modulo 2^8, 2^16 or 2^32 (a truncating cast would
    // confuse them with DATA / HEADERS / SETTINGS / 0x41 / control / QPACK / 0x54 / known settings)
    for base in [0x100u64, 0x1_0000, 1 << 32, 1 << 40] {
        for low in [0x00u64, 0x01, 0x02, 0x03, 0x04, 0x06, 0x07, 0x08, 0x21, 0x33, 0x41, 0x54] {
            v.push(base + low);
        }
    }
    v.extend([(1u64 << 32) + 0x2b60_3742, (1u64 << 33) + 0xc671_706a, (1u64 << 32) + 0x2843]);
    // a GREASE value of every varint length
    v.extend([
        0x21,
        0x1f * 100 + 0x21,
        0x1f * 1_000_000 + 0x21,
        0x1f * 100_000_000_000u64 + 0x21,
    ]);
    v.sort();
    v.dedup();
    v
}

pub fn random_v62(r: &mut Rng) -> u64 {
    let bits = r.below(63);
    if bits == 0 {
        0
    } else {
        r.next() & ((1u64 << bits) - 1).min((1u64 << 62) - 1)
    }
}

/// All byte strings over `alphabet` of exactly `len`.
pub fn strings_over(alphabet: &[u8], len: usize, f: &mut dyn FnMut(&[u8])) {
    let mut idx = vec![0usize; len];
    let mut buf = vec![0u8; len];
    loop {
        for i in 0..len {
            buf[i] = alphabet[idx[i]];
        }
        f(&buf);
        let mut k = len;
        loop {
            if k == 0 {
                return;
            }
            k -= 1;
            idx[k] += 1;
            if idx[k] < alphabet.len() {
                break;
            }
            idx[k] = 0;
        }
    }
}

/// Chunk scripts for an input of `len` bytes: whole, byte-by-byte, byte-by-byte
/// with a Pending before every read, and `extra` seeded random ones.
pub fn scripts(len: usize, r: &mut Rng, extra: usize) -> Vec<Vec<usize>> {
    let mut out = vec![vec![]];
    if len >= 1 {
        out.push(vec![1; len + 2]);
        let mut s = Vec::new();
        for _ in 0..len + 2 {
            s.push(0);
            s.push(1);
        }
        out.push(s);
    }
    for _ in 0..extra {
        let mut s = Vec::new();
        let mut left = len + 2;
        while left > 0 && s.len() < 64 {
            if r.below(3) == 0 {
                s.push(0);
            } else {
                let n = 1 + r.below(left.min(5) as u64) as usize;
                s.push(n);
                left -= n.min(left);
            }
        }
        out.push(s);
    }
    out
}

// ----------------------------------------------------------------- QPACK inputs

/// Prefix integer (RFC 7541 5.1) with an `n`-bit prefix and the given high bits.
pub fn prefix_int(high: u8, n: u32, value: u64) -> Vec<u8> {
    let mask = (1u64 << n) - 1;
    let mut out = Vec::new();
    if value < mask {
        out.push(high | value as u8);
        return out;
    }
    out.push(high | mask as u8);
    let mut rem = value - mask;
    while rem >= 128 {
        out.push((rem as u8 & 0x7f) | 0x80);
        rem >>= 7;
    }
    out.push(rem as u8);
    out
}

pub fn huffman(s: &[u8]) -> Vec<u8> {
    let mut out = Vec::new();
    httlib_huffman::encode(s, &mut out).expect("huffman");
    out
}

/// String literal with an `n`-bit length prefix; `hbit` is the Huffman flag mask.
pub fn qstring(high: u8, hbit: u8, n: u32, s: &[u8], huff: bool) -> Vec<u8> {
    if huff {
        let h = huffman(s);
        let mut out = prefix_int(high | hbit, n, h.len() as u64);
        out.extend(h);
        out
    } else {
        let mut out = prefix_int(high, n, s.len() as u64);
        out.extend_from_slice(s);
        out
    }
}

pub fn q_indexed_static(index: u64) -> Vec<u8> {
    prefix_int(0b1100_0000, 6, index)
}

pub fn q_literal_nameref_static(index: u64, value: &[u8], huff: bool) -> Vec<u8> {
    let mut out = prefix_int(0b0101_0000, 4, index);
    out.extend(qstring(0, 0x80, 7, value, huff));
    out
}

pub fn q_literal_literal(name: &[u8], value: &[u8], hn: bool, hv: bool) -> Vec<u8> {
    let mut out = qstring(0b0010_0000, 0x08, 3, name, hn);
    out.extend(qstring(0, 0x80, 7, value, hv));
    out
}

pub fn q_section(lines: &[Vec<u8>]) -> Vec<u8> {
    let mut out = vec![0u8, 0u8];
    for l in lines {
        out.extend_from_slice(l);
    }
    out
}

/// A corpus of well-formed field sections.
pub fn qpack_corpus(r: &mut Rng, random: usize) -> Vec<Vec<u8>> {
    let mut out = Vec::new();
    out.push(q_section(&[]));
    for idx in [0u64, 1, 15, 23, 25, 62, 63, 64, 98] {
        out.push(q_section(&[q_indexed_static(idx)]));
    }
    // a WebTransport request
    out.push(q_section(&[
        q_indexed_static(15),
        q_indexed_static(23),
        q_literal_nameref_static(0, b"example.com:4433", false),
        q_literal_nameref_static(1, b"/chat?room=1", true),
        q_literal_literal(b":protocol", b"webtransport", false, false),
        q_literal_literal(b"origin-x", b"https://example.com", true, true),
    ]));
    out.push(q_section(&[q_indexed_static(25)]));
    out.push(q_section(&[
        q_literal_nameref_static(24, b"200", false),
        q_literal_literal(b"sec-webtransport-http3-draft", b"draft02", true, false),
    ]));
    for len in [0usize, 1, 6, 7, 8, 126, 127, 128, 129, 300] {
        let s: Vec<u8> = (0..len).map(|i| b'a' + (i % 26) as u8).collect();
        out.push(q_section(&[q_literal_literal(&s, &s, false, false)]));
        out.push(q_section(&[q_literal_literal(&s, &s, true, true)]));
        out.push(q_section(&[q_literal_nameref_static(5, &s, len % 2 == 0)]));
    }
    // multi-byte UTF-8 values
    out.push(q_section(&[q_literal_literal(
        b"x-utf8",
        "h\u{e9}llo \u{4e16}\u{754c} \u{1f600}".as_bytes(),
        false,
        false,
    )]));
    out.push(q_section(&[q_literal_literal(
        b"x-utf8",
        "h\u{e9}llo \u{4e16}\u{754c} \u{1f600}".as_bytes(),
        false,
        true,
    )]));
    // repeated names
    out.push(q_section(&[
        q_literal_literal(b"dup", b"1", false, false),
        q_literal_literal(b"dup", b"2", false, false),
        q_indexed_static(17),
        q_indexed_static(20),
    ]));
    const ALPHA: &[u8] = b"abcdefghijklmnopqrstuvwxyz0123456789-_.:/?=&% ;,*ABCXYZ";
    for _ in 0..random {
        let mut lines = Vec::new();
        for _ in 0..1 + r.below(4) {
            match r.below(3) {
                0 => lines.push(q_indexed_static(r.below(99))),
                1 => {
                    let len = r.below(20) as usize;
                    let v: Vec<u8> = (0..len).map(|_| *r.pick(ALPHA)).collect();
                    lines.push(q_literal_nameref_static(r.below(99), &v, r.below(2) == 0));
                }
                _ => {
                    let ln = 1 + r.below(12) as usize;
                    let lv = r.below(24) as usize;
                    let n: Vec<u8> = (0..ln).map(|_| *r.pick(&ALPHA[..40])).collect();
                    let v: Vec<u8> = (0..lv).map(|_| *r.pick(ALPHA)).collect();
                    lines.push(q_literal_literal(&n, &v, r.below(2) == 0, r.below(2) == 0));
                }
            }
        }
        out.push(q_section(&lines));
    }
    out
}

/// Single-byte mutations and truncations of `base`.
pub fn mutations(base: &[u8], r: &mut Rng, per_pos: usize, f: &mut dyn FnMut(&[u8])) {
    for cut in 0..base.len() {
        f(&base[..cut]);
    }
    let mut buf = base.to_vec();
    for pos in 0..base.len() {
        let orig = base[pos];
        let mut cands = vec![
            orig.wrapping_add(1),
            orig.wrapping_sub(1),
            orig ^ 0x80,
            orig ^ 0x40,
            0x00,
            0xff,
        ];
        for _ in 0..per_pos {
            cands.push(r.byte());
        }
        cands.sort();
        cands.dedup();
        for c in cands {
            if c == orig {
                continue;
            }
            buf[pos] = c;
            f(&buf);
        }
        buf[pos] = orig;
    }
}
