//! wtv: conformance harness for the wtransport TLA+ specification suite.
mod codec;
mod e2e;
mod gen;
mod sansio;
mod sio;
mod tlscfg;
mod trace;

#[global_allocator]
static GLOBAL: trace::CountingAlloc = trace::CountingAlloc;

fn arg(args: &[String], name: &str) -> Option<String> {
    args.iter()
        .position(|a| a == name)
        .and_then(|i| args.get(i + 1).cloned())
}

fn main() {
    let args: Vec<String> = std::env::args().collect();
    if args.len() < 2 {
        eprintln!("usage: wtv <suite> --out FILE [--tier quick|thorough] [--seed N]");
        std::process::exit(2);
    }
    let tier = match arg(&args, "--tier").as_deref() {
        Some("thorough") => sansio::Tier::Thorough,
        _ => sansio::Tier::Quick,
    };
    let seed: u64 = arg(&args, "--seed")
        .and_then(|s| s.parse().ok())
        .unwrap_or(0);
    let out = arg(&args, "--out").unwrap_or_else(|| "trace.ndjson".to_string());
    trace::silence_panics();
    trace::journal_open(&format!("{out}.journal"));
    if args[1] == "e2e" {
        trace::mech_open(&format!("{out}.mech"));
    }
    match args[1].as_str() {
        "dec" => {
            let mut t = trace::Tracer::create(&out);
            sansio::suite_dec(&mut t, tier, seed);
            println!("events={}", t.finish());
        }
        "ts" => {
            let mut t = trace::Tracer::create(&out);
            sansio::suite_ts(&mut t, tier, seed);
            println!("events={}", t.finish());
        }
        "enc" => {
            let mut t = trace::Tracer::create(&out);
            sansio::suite_enc(&mut t, tier, seed);
            println!("events={}", t.finish());
        }
        "ids" => {
            let mut t = trace::Tracer::create(&out);
            sansio::suite_ids(&mut t, tier, seed);
            println!("events={}", t.finish());
        }
        "adm" => {
            let mut t = trace::Tracer::create(&out);
            sansio::suite_adm(&mut t, tier, seed);
            println!("events={}", t.finish());
        }
        "pin" | "ident" | "cfg" => {
            let mut t = trace::Tracer::create(&out);
            let thorough = tier == sansio::Tier::Thorough;
            match args[1].as_str() {
                "pin" => tlscfg::suite_pin(&mut t, thorough, seed),
                "ident" => {
                    let scratch = arg(&args, "--scratch").unwrap_or_else(|| format!("{out}.scratch"));
                    tlscfg::suite_ident(&mut t, thorough, seed, &scratch);
                    let _ = std::fs::remove_dir_all(&scratch);
                }
                _ => tlscfg::suite_cfg(&mut t, thorough, seed),
            }
            println!("events={}", t.finish());
        }
        "e2e" => {
            let scn = arg(&args, "--scenarios").expect("--scenarios FILE");
            let threads: usize = arg(&args, "--threads")
                .and_then(|s| s.parse().ok())
                .unwrap_or(2);
            let par: usize = arg(&args, "--par")
                .and_then(|s| s.parse().ok())
                .unwrap_or(1);
            let n = e2e::run_file(&scn, &out, threads, par);
            println!("events={n}");
        }
        other => {
            eprintln!("unknown suite {other}");
            std::process::exit(2);
        }
    }
}
