//! Two-sided scenario interpreter: a wtransport endpoint under test ("app"), and a
//! peer that is either a raw QUIC endpoint speaking exactly the bytes the script
//! says ("peer") or a second wtransport endpoint ("app2").
//!
//! A scenario is one JSON object; every step and everything the recorders observe
//! is written as one ndjson event with a global sequence number.
#![allow(dead_code)]

use crate::gen;
use crate::trace::bytes as jbytes;
use crate::trace::v62;
use serde_json::json;
use serde_json::Map;
use serde_json::Value;
use std::collections::HashMap;
use std::net::SocketAddr;
use std::sync::atomic::AtomicU64;
use std::sync::atomic::Ordering;
use std::sync::Arc;
use std::sync::Mutex;
use std::time::Duration;
use tokio::task::JoinHandle;
use tokio::time::timeout;
use wtransport::endpoint::endpoint_side;
use wtransport::endpoint::ConnectOptions;
use wtransport::error::ConnectingError;
use wtransport::error::ConnectionError;
use wtransport::error::SendDatagramError;
use wtransport::error::StreamOpeningError;
use wtransport::error::StreamReadError;
use wtransport::error::StreamWriteError;
use wtransport::quinn;
use wtransport::ClientConfig;
use wtransport::Connection;
use wtransport::Endpoint;
use wtransport::Identity;
use wtransport::ServerConfig;
use wtransport::VarInt;

// ------------------------------------------------------------------ event log

pub struct Log {
    out: Arc<Mutex<(std::io::BufWriter<std::fs::File>, u64)>>,
    scn: String,
    pub lines: Arc<AtomicU64>,
}

impl Log {
    pub fn create(path: &str) -> Arc<Self> {
        let f = std::fs::File::create(path).expect("create trace");
        Arc::new(Self {
            out: Arc::new(Mutex::new((std::io::BufWriter::new(f), 0))),
            scn: String::new(),
            lines: Arc::new(AtomicU64::new(0)),
        })
    }

    /// A handle on the same file whose events carry the scenario name `scn`.
    pub fn for_scn(&self, scn: &str) -> Arc<Self> {
        Arc::new(Self {
            out: self.out.clone(),
            scn: scn.to_string(),
            lines: self.lines.clone(),
        })
    }

    pub fn emit(&self, src: &str, ev: &str, mut fields: Map<String, Value>) {
        use std::io::Write;
        let mut g = self.out.lock().unwrap();
        g.1 += 1;
        fields.insert("scn".into(), json!(self.scn));
        fields.insert("seq".into(), json!(g.1));
        fields.insert("src".into(), json!(src));
        fields.insert("ev".into(), json!(ev));
        serde_json::to_writer(&mut g.0, &Value::Object(fields)).expect("write");
        g.0.write_all(b"\n").expect("write");
        // flushed per event: after a process abort the trace still tells which scenario ran
        let _ = g.0.flush();
        self.lines.fetch_add(1, Ordering::Relaxed);
    }

    pub fn flush(&self) {
        use std::io::Write;
        self.out.lock().unwrap().0.flush().expect("flush");
    }
}

macro_rules! fields {
    ($($k:expr => $v:expr),* $(,)?) => {{
        #[allow(unused_mut)]
        let mut m = Map::new();
        $( m.insert($k.to_string(), json!($v)); )*
        m
    }};
}

/// Byte strings in events: full when short, else length + head + tail + checksum.
fn data_fields(m: &mut Map<String, Value>, b: &[u8]) {
    m.insert("len".into(), json!(b.len()));
    if b.len() <= 2048 {
        m.insert("bytes".into(), jbytes(b));
    } else {
        m.insert("head".into(), jbytes(&b[..16]));
        m.insert("tail".into(), jbytes(&b[b.len() - 16..]));
        let sum: u64 = b.iter().enumerate().fold(0u64, |a, (i, x)| {
            (a + (*x as u64) * ((i as u64 % 251) + 1)) % 1_000_003
        });
        m.insert("sum".into(), json!(sum));
    }
}

// ---------------------------------------------------------------- error names

fn conn_err(e: &ConnectionError) -> Value {
    match e {
        ConnectionError::ApplicationClosed(c) => json!({
            "k": "ApplicationClosed",
            "code": v62(c.code().into_inner()),
            "reason": jbytes(c.reason()),
        }),
        ConnectionError::ConnectionClosed(_) => json!({"k": "ConnectionClosed"}),
        ConnectionError::LocallyClosed => json!({"k": "LocallyClosed"}),
        ConnectionError::LocalH3Error(h) => json!({"k": "LocalH3Error", "h3": h.to_string()}),
        ConnectionError::TimedOut => json!({"k": "TimedOut"}),
        ConnectionError::QuicProto(_) => json!({"k": "QuicProto"}),
        ConnectionError::CidsExhausted => json!({"k": "CidsExhausted"}),
    }
}

fn connecting_err(e: &ConnectingError) -> Value {
    match e {
        ConnectingError::SessionRejected => json!({"k": "SessionRejected"}),
        ConnectingError::ConnectionError(c) => json!({"k": "ConnectionError", "inner": conn_err(c)}),
        ConnectingError::InvalidUrl(_) => json!({"k": "InvalidUrl"}),
        ConnectingError::ReservedHeader(h) => json!({"k": "ReservedHeader", "name": h}),
        ConnectingError::DnsLookup(_) => json!({"k": "DnsLookup"}),
        ConnectingError::DnsNotFound => json!({"k": "DnsNotFound"}),
        other => json!({"k": "Other", "text": other.to_string()}),
    }
}

fn read_err(e: &StreamReadError) -> Value {
    match e {
        StreamReadError::Reset(c) => json!({"k": "Reset", "code": v62(c.into_inner())}),
        StreamReadError::NotConnected => json!({"k": "NotConnected"}),
        StreamReadError::QuicProto => json!({"k": "QuicProto"}),
    }
}

fn write_err(e: &StreamWriteError) -> Value {
    match e {
        StreamWriteError::Stopped(c) => json!({"k": "Stopped", "code": v62(c.into_inner())}),
        StreamWriteError::NotConnected => json!({"k": "NotConnected"}),
        StreamWriteError::Closed => json!({"k": "Closed"}),
        StreamWriteError::QuicProto => json!({"k": "QuicProto"}),
    }
}

fn quinn_close(e: &quinn::ConnectionError) -> Value {
    match e {
        quinn::ConnectionError::ApplicationClosed(c) => json!({
            "k": "ApplicationClosed",
            "code": v62(c.error_code.into_inner()),
            "reason": jbytes(&c.reason),
        }),
        quinn::ConnectionError::ConnectionClosed(c) => json!({
            "k": "ConnectionClosed",
            "code": v62(u64::from(c.error_code)),
            "reason": jbytes(&c.reason),
        }),
        quinn::ConnectionError::LocallyClosed => json!({"k": "LocallyClosed"}),
        quinn::ConnectionError::TimedOut => json!({"k": "TimedOut"}),
        quinn::ConnectionError::Reset => json!({"k": "Reset"}),
        quinn::ConnectionError::TransportError(t) => {
            json!({"k": "TransportError", "code": v62(u64::from(t.code)), "text": t.reason})
        }
        other => json!({"k": "Other", "text": other.to_string()}),
    }
}

// ------------------------------------------------------------- raw TLS config

#[derive(Debug)]
struct NoVerify(Arc<rustls::crypto::CryptoProvider>);

impl rustls::client::danger::ServerCertVerifier for NoVerify {
    fn verify_server_cert(
        &self,
        _end_entity: &rustls_pki_types::CertificateDer<'_>,
        _intermediates: &[rustls_pki_types::CertificateDer<'_>],
        _server_name: &rustls_pki_types::ServerName<'_>,
        _ocsp: &[u8],
        _now: rustls_pki_types::UnixTime,
    ) -> Result<rustls::client::danger::ServerCertVerified, rustls::Error> {
        Ok(rustls::client::danger::ServerCertVerified::assertion())
    }
    fn verify_tls12_signature(
        &self,
        message: &[u8],
        cert: &rustls_pki_types::CertificateDer<'_>,
        dss: &rustls::DigitallySignedStruct,
    ) -> Result<rustls::client::danger::HandshakeSignatureValid, rustls::Error> {
        rustls::crypto::verify_tls12_signature(message, cert, dss, &self.0.signature_verification_algorithms)
    }
    fn verify_tls13_signature(
        &self,
        message: &[u8],
        cert: &rustls_pki_types::CertificateDer<'_>,
        dss: &rustls::DigitallySignedStruct,
    ) -> Result<rustls::client::danger::HandshakeSignatureValid, rustls::Error> {
        rustls::crypto::verify_tls13_signature(message, cert, dss, &self.0.signature_verification_algorithms)
    }
    fn supported_verify_schemes(&self) -> Vec<rustls::SignatureScheme> {
        self.0.signature_verification_algorithms.supported_schemes()
    }
}

fn provider() -> Arc<rustls::crypto::CryptoProvider> {
    Arc::new(rustls::crypto::ring::default_provider())
}

fn raw_transport(cfg: &Value) -> quinn::TransportConfig {
    let mut tc = quinn::TransportConfig::default();
    if let Some(n) = cfg.get("peer_dgram_recv").and_then(|v| v.as_u64()) {
        tc.datagram_receive_buffer_size(if n == 0 { None } else { Some(n as usize) });
    }
    if let Some(ms) = cfg.get("peer_idle_ms").and_then(|v| v.as_u64()) {
        tc.max_idle_timeout(Some(quinn::IdleTimeout::try_from(Duration::from_millis(ms)).unwrap()));
    } else {
        tc.max_idle_timeout(Some(quinn::IdleTimeout::try_from(Duration::from_secs(20)).unwrap()));
    }
    // flow-control window the raw peer grants per stream (small values force short writes on the other side)
    if let Some(n) = cfg.get("peer_stream_window").and_then(|v| v.as_u64()) {
        tc.stream_receive_window(quinn::VarInt::from_u32(n as u32));
    }
    if let Some(n) = cfg.get("peer_max_uni").and_then(|v| v.as_u64()) {
        tc.max_concurrent_uni_streams(quinn::VarInt::from_u32(n as u32));
    }
    if let Some(n) = cfg.get("peer_max_bi").and_then(|v| v.as_u64()) {
        tc.max_concurrent_bidi_streams(quinn::VarInt::from_u32(n as u32));
    }
    tc
}

pub fn raw_client_config(cfg: &Value) -> quinn::ClientConfig {
    let alpn = cfg
        .get("peer_alpn")
        .and_then(|v| v.as_str())
        .unwrap_or("h3")
        .as_bytes()
        .to_vec();
    let p = provider();
    let mut crypto = rustls::ClientConfig::builder_with_provider(p.clone())
        .with_protocol_versions(&[&rustls::version::TLS13])
        .unwrap()
        .dangerous()
        .with_custom_certificate_verifier(Arc::new(NoVerify(p)))
        .with_no_client_auth();
    crypto.alpn_protocols = vec![alpn];
    let q = quinn::crypto::rustls::QuicClientConfig::try_from(crypto).expect("quic client cfg");
    let mut cc = quinn::ClientConfig::new(Arc::new(q));
    cc.transport_config(Arc::new(raw_transport(cfg)));
    cc
}

pub fn raw_server_config(cfg: &Value) -> quinn::ServerConfig {
    let alpn = cfg
        .get("peer_alpn")
        .and_then(|v| v.as_str())
        .unwrap_or("h3")
        .as_bytes()
        .to_vec();
    let ck = rcgen::generate_simple_self_signed(vec!["localhost".to_string()]).expect("rcgen");
    let cert = rustls_pki_types::CertificateDer::from(ck.cert.der().to_vec());
    let key = rustls_pki_types::PrivateKeyDer::try_from(ck.signing_key.serialize_der())
        .expect("key der");
    let mut sc = rustls::ServerConfig::builder_with_provider(provider())
        .with_protocol_versions(&[&rustls::version::TLS13])
        .unwrap()
        .with_no_client_auth()
        .with_single_cert(vec![cert], key)
        .expect("server cert");
    sc.alpn_protocols = vec![alpn];
    let q = quinn::crypto::rustls::QuicServerConfig::try_from(sc).expect("quic server cfg");
    let mut s = quinn::ServerConfig::with_crypto(Arc::new(q));
    s.transport_config(Arc::new(raw_transport(cfg)));
    s
}

// -------------------------------------------------------------------- handles

pub enum SendH {
    Raw(quinn::SendStream),
    App(wtransport::SendStream),
}

pub enum RecvH {
    Raw(quinn::RecvStream),
    App(wtransport::RecvStream),
}

#[derive(Default)]
pub struct Streams {
    send: HashMap<String, SendH>,
    recv: HashMap<String, RecvH>,
    /// bytes already read per receive handle (pattern offset of the next read)
    roff: HashMap<String, usize>,
    /// bytes already written per send handle
    woff: HashMap<String, usize>,
}

type Shared<T> = Arc<tokio::sync::Mutex<T>>;

pub struct World {
    pub log: Arc<Log>,
    pub cfg: Value,
    pub app: Option<Connection>,
    pub app2: Option<Connection>,
    pub raw: Option<quinn::Connection>,
    pub streams: Shared<Streams>,
    pub tasks: HashMap<String, JoinHandle<()>>,
    pub bg: Vec<JoinHandle<()>>,
    pub keep: Vec<Box<dyn std::any::Any + Send>>,
    /// the scripted link between two wtransport endpoints (cfg.link): while set, the forwarder
    /// drops every datagram in both directions
    pub cut: Arc<std::sync::atomic::AtomicBool>,
}

/// A UDP relay in front of `server`; returns the address clients connect to. While `cut` is set
/// every packet (both directions) is dropped: QUIC sees loss, nothing is acknowledged.
async fn spawn_link(server: SocketAddr, cut: Arc<std::sync::atomic::AtomicBool>) -> (SocketAddr, JoinHandle<()>) {
    let front = tokio::net::UdpSocket::bind("127.0.0.1:0").await.expect("link front");
    let back = tokio::net::UdpSocket::bind("127.0.0.1:0").await.expect("link back");
    let addr = front.local_addr().unwrap();
    let h = tokio::spawn(async move {
        let mut client: Option<SocketAddr> = None;
        let mut b1 = vec![0u8; 65536];
        let mut b2 = vec![0u8; 65536];
        loop {
            tokio::select! {
                r = front.recv_from(&mut b1) => {
                    let Ok((n, from)) = r else { continue };
                    client = Some(from);
                    if !cut.load(Ordering::SeqCst) {
                        let _ = back.send_to(&b1[..n], server).await;
                    }
                }
                r = back.recv_from(&mut b2) => {
                    let Ok((n, _)) = r else { continue };
                    if let (Some(c), false) = (client, cut.load(Ordering::SeqCst)) {
                        let _ = front.send_to(&b2[..n], c).await;
                    }
                }
            }
        }
    });
    (addr, h)
}

/// Option<usize> without JSON null (the TLA+ JSON reader rejects null): None = -1.
fn opt_num(x: Option<usize>) -> Value {
    match x {
        Some(n) => json!(n.min(i32::MAX as usize)),
        None => json!(-1),
    }
}

fn key(who: &str, tag: &str) -> String {
    format!("{who}:{tag}")
}

fn s<'a>(v: &'a Value, k: &str) -> &'a str {
    v.get(k).and_then(|x| x.as_str()).unwrap_or("")
}

fn u(v: &Value, k: &str, d: u64) -> u64 {
    v.get(k).and_then(|x| x.as_u64()).unwrap_or(d)
}

fn byte_arr(v: &Value, k: &str) -> Vec<u8> {
    v.get(k)
        .and_then(|x| x.as_array())
        .map(|a| a.iter().map(|b| b.as_u64().unwrap_or(0) as u8).collect())
        .unwrap_or_default()
}

/// u64 given either as a JSON number or as [hi, lo].
fn big(v: &Value, k: &str, d: u64) -> u64 {
    match v.get(k) {
        Some(Value::Array(a)) if a.len() == 2 => {
            (a[0].as_u64().unwrap_or(0) << 31) | a[1].as_u64().unwrap_or(0)
        }
        Some(x) => x.as_u64().unwrap_or(d),
        None => d,
    }
}

/// Payload of a write step: explicit bytes, or a pattern {len, salt, off}.
fn payload(step: &Value) -> Vec<u8> {
    payload_salted(step, u(step, "salt", 0) as usize)
}

fn payload_salted(step: &Value, salt: usize) -> Vec<u8> {
    if step.get("bytes").is_some() {
        return byte_arr(step, "bytes");
    }
    let len = u(step, "len", 0) as usize;
    let off = u(step, "off", 0) as usize;
    (off..off + len).map(|i| gen::pat(i, salt)).collect()
}

// ------------------------------------------------------------------- H3 bytes

pub fn default_settings_payload() -> Vec<u8> {
    let mut p = Vec::new();
    for (i, v) in [(0x01u64, 0u64), (0x07, 0), (0x08, 1), (0x33, 1), (0x2b60_3742, 1), (0xc671_706a, 1)] {
        p.extend(gen::enc_varint(i));
        p.extend(gen::enc_varint(v));
    }
    p
}

pub fn default_request_payload() -> Vec<u8> {
    gen::q_section(&[
        gen::q_indexed_static(15),
        gen::q_indexed_static(23),
        gen::q_literal_nameref_static(0, b"localhost", false),
        gen::q_indexed_static(1),
        gen::q_literal_literal(b":protocol", b"webtransport", false, false),
    ])
}

/// Reads one HTTP/3 frame from a raw stream: (type, payload). None at a clean end.
async fn raw_read_frame(r: &mut quinn::RecvStream) -> Option<(u64, Vec<u8>)> {
    async fn varint(r: &mut quinn::RecvStream) -> Option<u64> {
        let mut b = [0u8; 1];
        r.read_exact(&mut b).await.ok()?;
        let n = 1usize << (b[0] >> 6);
        let mut v = (b[0] & 0x3f) as u64;
        let mut rest = vec![0u8; n - 1];
        r.read_exact(&mut rest).await.ok()?;
        for x in rest {
            v = (v << 8) | x as u64;
        }
        Some(v)
    }
    let ty = varint(r).await?;
    let len = varint(r).await?;
    if len > 1 << 20 {
        return None;
    }
    let mut p = vec![0u8; len as usize];
    r.read_exact(&mut p).await.ok()?;
    Some((ty, p))
}

// ------------------------------------------------------------- raw recorders

fn spawn_raw_recorders(w: &mut World, conn: quinn::Connection, bidi: bool) {
    let log = w.log.clone();
    let c = conn.clone();
    // `peer_no_read`: the raw peer accepts the endpoint's streams but never reads them (they stay open and
    // unread, so the endpoint's writes stop at the flow-control window)
    let no_read = w.cfg.get("peer_no_read").and_then(|v| v.as_bool()).unwrap_or(false);
    w.bg.push(tokio::spawn(async move {
        let mut parked = Vec::new();
        while let Ok(mut r) = c.accept_uni().await {
            if no_read {
                parked.push(r);
                continue;
            }
            let log = log.clone();
            tokio::spawn(async move {
                let id = u64::from(quinn::VarInt::from(r.id()));
                let mut all = Vec::new();
                let mut buf = vec![0u8; 4096];
                let end = loop {
                    match r.read(&mut buf).await {
                        Ok(Some(n)) => {
                            all.extend_from_slice(&buf[..n]);
                            if all.len() > (8 << 20) {
                                break json!({"k": "toolong"});
                            }
                        }
                        Ok(None) => break json!({"k": "fin"}),
                        Err(quinn::ReadError::Reset(c)) => {
                            break json!({"k": "reset", "code": v62(c.into_inner())})
                        }
                        Err(_) => break json!({"k": "conn"}),
                    }
                };
                let mut m = fields! {"dir" => "uni", "id" => v62(id), "end" => end};
                data_fields(&mut m, &all);
                log.emit("peer", "rx_stream", m);
            });
        }
    }));
    if bidi {
        let log = w.log.clone();
        let c = conn.clone();
        let streams = w.streams.clone();
        w.bg.push(tokio::spawn(async move {
            while let Ok((snd, mut r)) = c.accept_bi().await {
                let id = u64::from(quinn::VarInt::from(r.id()));
                streams
                    .lock()
                    .await
                    .send
                    .insert(key("peer", &format!("in{id}")), SendH::Raw(snd));
                let log = log.clone();
                tokio::spawn(async move {
                    let mut all = Vec::new();
                    let mut buf = vec![0u8; 4096];
                    let end = loop {
                        match r.read(&mut buf).await {
                            Ok(Some(n)) => {
                                all.extend_from_slice(&buf[..n]);
                                if all.len() > (8 << 20) {
                                    break json!({"k": "toolong"});
                                }
                            }
                            Ok(None) => break json!({"k": "fin"}),
                            Err(quinn::ReadError::Reset(c)) => {
                                break json!({"k": "reset", "code": v62(c.into_inner())})
                            }
                            Err(_) => break json!({"k": "conn"}),
                        }
                    };
                    let mut m = fields! {"dir" => "bi", "id" => v62(id), "end" => end};
                    data_fields(&mut m, &all);
                    log.emit("peer", "rx_stream", m);
                });
            }
        }));
    }
    let log = w.log.clone();
    let c = conn.clone();
    w.bg.push(tokio::spawn(async move {
        while let Ok(d) = c.read_datagram().await {
            let mut m = Map::new();
            data_fields(&mut m, &d);
            log.emit("peer", "rx_dgram", m);
        }
    }));
    let log = w.log.clone();
    let c = conn.clone();
    w.bg.push(tokio::spawn(async move {
        let e = c.closed().await;
        log.emit("peer", "peer_closed", fields! {"why" => quinn_close(&e)});
    }));
}

/// Reads the rest of a raw receive stream in the background and logs it under `tag`.
fn spawn_raw_reader(w: &mut World, tag: &str, mut r: quinn::RecvStream, dir: &str) {
    let log = w.log.clone();
    let tag = tag.to_string();
    let dir = dir.to_string();
    w.bg.push(tokio::spawn(async move {
        let id = u64::from(quinn::VarInt::from(r.id()));
        let mut all = Vec::new();
        let mut buf = vec![0u8; 4096];
        let end = loop {
            match r.read(&mut buf).await {
                Ok(Some(n)) => all.extend_from_slice(&buf[..n]),
                Ok(None) => break json!({"k": "fin"}),
                Err(quinn::ReadError::Reset(c)) => {
                    break json!({"k": "reset", "code": v62(c.into_inner())})
                }
                Err(_) => break json!({"k": "conn"}),
            }
        };
        let mut m = fields! {"dir" => dir, "id" => v62(id), "end" => end, "tag" => tag};
        data_fields(&mut m, &all);
        log.emit("peer", "rx_stream", m);
    }));
}

// ----------------------------------------------------------------------- DNS

#[derive(Debug)]
struct FixedDns(SocketAddr);

impl wtransport::config::DnsResolver for FixedDns {
    fn resolve(
        &self,
        _host: &str,
    ) -> std::pin::Pin<Box<dyn wtransport::config::DnsLookupFuture>> {
        let a = self.0;
        Box::pin(async move { Ok(Some(a)) })
    }
}

// --------------------------------------------------------------------- setup

/// Creating an endpoint can fail for reasons that have nothing to do with the code under
/// test (a fixed port still in use): retry, then report a harness error (never a verdict).
async fn retry_ep<T>(log: &Arc<Log>, what: &str, mut f: impl FnMut() -> std::io::Result<T>) -> Option<T> {
    for _ in 0..40 {
        match f() {
            Ok(x) => return Some(x),
            Err(_) => tokio::time::sleep(Duration::from_millis(100)).await,
        }
    }
    log.emit("harness", "harness_error", fields! {"what" => what});
    None
}

/// Server identities for the trust-policy scenarios (C10).
fn make_identity(kind: &str) -> Identity {
    let names = ["localhost", "127.0.0.1", "::1"];
    let now = time::OffsetDateTime::now_utc();
    let day = time::Duration::days(1);
    let b = Identity::self_signed_builder().subject_alt_names(names);
    match kind {
        "days15" => b.from_now_utc().validity_days(15).build().expect("identity"),
        "expired" => b.validity_period(now - day * 20, now - day * 10).build().expect("identity"),
        "future" => b.validity_period(now + day, now + day * 5).build().expect("identity"),
        "p384" | "ed25519" => {
            let t = now.unix_timestamp();
            let (der, key) = crate::tlscfg::mint(kind, t - 3600, t + 5 * 86400, names.iter().map(|s| s.to_string()).collect());
            Identity::new(
                wtransport::tls::CertificateChain::single(wtransport::tls::Certificate::from_der(der).expect("cert")),
                wtransport::tls::PrivateKey::from_der_pkcs8(key),
            )
        }
        _ => Identity::self_signed(names).expect("identity"),
    }
}

fn sut_server_config(cfg: &Value) -> ServerConfig {
    sut_server_config_with(cfg, make_identity(s(cfg, "server_identity")))
}

fn sut_server_config_with(cfg: &Value, id: Identity) -> ServerConfig {
    let port = u(cfg, "port", 0) as u16;
    let b = if s(cfg, "bind") == "dual" {
        ServerConfig::builder().with_bind_config(wtransport::config::IpBindConfig::LocalDual, port)
    } else {
        ServerConfig::builder().with_bind_address(format!("127.0.0.1:{port}").parse().unwrap())
    }
    .with_identity(id);
    let idle = u(cfg, "idle_ms", 20_000);
    let b = b
        .max_idle_timeout(Some(Duration::from_millis(idle)))
        .expect("idle");
    let b = match cfg.get("keepalive_ms").and_then(|v| v.as_u64()) {
        Some(ms) => b.keep_alive_interval(Some(Duration::from_millis(ms))),
        None => b,
    };
    // the last setting wins: switched on, then off again
    let b = match cfg.get("keepalive_then_off_ms").and_then(|v| v.as_u64()) {
        Some(ms) => b.keep_alive_interval(Some(Duration::from_millis(ms))).keep_alive_interval(None),
        None => b,
    };
    b.build()
}

fn sut_client_config(cfg: &Value, server: SocketAddr) -> ClientConfig {
    sut_client_config_with(cfg, server, None)
}

fn sut_client_config_with(cfg: &Value, server: SocketAddr, server_hash: Option<wtransport::tls::Sha256Digest>) -> ClientConfig {
    let b = if s(cfg, "bind") == "dual" {
        ClientConfig::builder().with_bind_default()
    } else {
        ClientConfig::builder().with_bind_address("127.0.0.1:0".parse().unwrap())
    };
    let b = match (s(cfg, "client_trust"), server_hash) {
        ("hash_own", Some(h)) => b.with_server_certificate_hashes([h]),
        ("hash_other", _) => b.with_server_certificate_hashes([wtransport::tls::Sha256Digest::new([9u8; 32])]),
        ("hash_many_own", Some(h)) => b.with_server_certificate_hashes(
            (0..8u8).map(|i| wtransport::tls::Sha256Digest::new([i; 32])).chain([h])),
        ("hash_none", _) => b.with_server_certificate_hashes(Vec::<wtransport::tls::Sha256Digest>::new()),
        ("native", _) => b.with_native_certs(),
        _ => b.with_no_cert_validation(),
    };
    let idle = u(cfg, "idle_ms", 20_000);
    let b = b
        .max_idle_timeout(Some(Duration::from_millis(idle)))
        .expect("idle");
    let b = match cfg.get("keepalive_ms").and_then(|v| v.as_u64()) {
        Some(ms) => b.keep_alive_interval(Some(Duration::from_millis(ms))),
        None => b,
    };
    let b = match cfg.get("keepalive_then_off_ms").and_then(|v| v.as_u64()) {
        Some(ms) => b.keep_alive_interval(Some(Duration::from_millis(ms))).keep_alive_interval(None),
        None => b,
    };
    b.dns_resolver(FixedDns(server)).build()
}

fn headers_json(h: &HashMap<String, String>) -> Value {
    let mut v: Vec<(&String, &String)> = h.iter().collect();
    v.sort();
    Value::Array(
        v.into_iter()
            .map(|(k, v)| json!([jbytes(k.as_bytes()), jbytes(v.as_bytes())]))
            .collect(),
    )
}

fn str_pairs(v: Option<&Value>) -> Vec<(String, String)> {
    v.and_then(|x| x.as_array())
        .map(|a| {
            a.iter()
                .filter_map(|p| {
                    let p = p.as_array()?;
                    Some((p[0].as_str()?.to_string(), p[1].as_str()?.to_string()))
                })
                .collect()
        })
        .unwrap_or_default()
}

/// Server side of a wtransport session: accept the incoming session, log the request,
/// apply the scripted decision. Returns the connection if accepted.
async fn sut_server_accept(
    log: &Arc<Log>,
    who: &str,
    ep: &Endpoint<endpoint_side::Server>,
    scn: &Value,
) -> Option<Connection> {
    let incoming = match timeout(Duration::from_secs(10), ep.accept()).await {
        Ok(i) => i,
        Err(_) => {
            log.emit(who, "server_session", fields! {"res" => "timeout_incoming"});
            return None;
        }
    };
    let req = match timeout(Duration::from_secs(10), incoming).await {
        Ok(Ok(r)) => r,
        Ok(Err(e)) => {
            log.emit(who, "server_session", fields! {"res" => "err", "err" => conn_err(&e)});
            return None;
        }
        Err(_) => {
            log.emit(who, "server_session", fields! {"res" => "timeout_request"});
            return None;
        }
    };
    log.emit(
        who,
        "server_saw",
        fields! {
            "authority" => jbytes(req.authority().as_bytes()),
            "path" => jbytes(req.path().as_bytes()),
            "headers" => headers_json(req.headers()),
        },
    );
    let decision = s(scn, "decision");
    let extra = str_pairs(scn.get("extra"));
    // the application may take its time to decide (the connection can end meanwhile)
    let delay = u(scn, "decide_delay_ms", 0);
    if delay > 0 {
        tokio::time::sleep(Duration::from_millis(delay)).await;
    }
    match decision {
        "forbidden" => {
            req.forbidden().await;
            log.emit(who, "server_decided", fields! {"d" => "forbidden"});
            None
        }
        "not_found" => {
            req.not_found().await;
            log.emit(who, "server_decided", fields! {"d" => "not_found"});
            None
        }
        "too_many" => {
            req.too_many_requests().await;
            log.emit(who, "server_decided", fields! {"d" => "too_many"});
            None
        }
        d => {
            let r = if d == "accept_headers" {
                req.accept_with_headers(extra).await
            } else {
                req.accept().await
            };
            match r {
                Ok(c) => {
                    log.emit(
                        who,
                        "server_decided",
                        fields! {"d" => if d == "accept_headers" {"accept_headers"} else {"accept"},
                        "res" => "ok", "sid" => v62(c.session_id().into_u64())},
                    );
                    Some(c)
                }
                Err(e) => {
                    log.emit(
                        who,
                        "server_decided",
                        fields! {"d" => "accept", "res" => "err", "err" => conn_err(&e)},
                    );
                    None
                }
            }
        }
    }
}

async fn sut_client_connect(
    log: &Arc<Log>,
    who: &str,
    ep: &Endpoint<endpoint_side::Client>,
    scn: &Value,
    addr: SocketAddr,
) -> Option<Connection> {
    let url = match scn.get("url").and_then(|v| v.as_str()) {
        Some(u) => u.replace("{port}", &addr.port().to_string()),
        None => format!("https://127.0.0.1:{}/", addr.port()),
    };
    let mut b = ConnectOptions::builder(&url);
    for (k, v) in str_pairs(scn.get("headers")) {
        b = b.add_header(k, v);
    }
    let mut m = fields! {"url" => jbytes(url.as_bytes())};
    let r = timeout(Duration::from_secs(10), ep.connect(b.build())).await;
    match r {
        Ok(Ok(c)) => {
            m.insert("res".into(), json!("ok"));
            m.insert("sid".into(), v62(c.session_id().into_u64()));
            log.emit(who, "connect_returned", m);
            Some(c)
        }
        Ok(Err(e)) => {
            m.insert("res".into(), json!("err"));
            m.insert("err".into(), connecting_err(&e));
            log.emit(who, "connect_returned", m);
            None
        }
        Err(_) => {
            m.insert("res".into(), json!("hang"));
            log.emit(who, "connect_returned", m);
            None
        }
    }
}

/// Establishes the connection(s) the scenario asks for.
async fn setup(w: &mut World, scn: &Value) {
    let role = s(scn, "role").to_string();
    let peer = s(scn, "peer").to_string();
    let cfg = scn.get("cfg").cloned().unwrap_or(json!({}));
    let manual = scn.get("manual").and_then(|v| v.as_bool()).unwrap_or(false);
    w.cfg = cfg.clone();
    w.cfg["_role"] = json!(role);
    match (role.as_str(), peer.as_str()) {
        ("server", "raw") => {
            let Some(ep) = retry_ep(&w.log, "server endpoint", || Endpoint::server(sut_server_config(&cfg))).await else { return };
            let addr: SocketAddr = format!("127.0.0.1:{}", ep.local_addr().unwrap().port())
                .parse()
                .unwrap();
            let cep = quinn::Endpoint::client("127.0.0.1:0".parse().unwrap()).expect("raw ep");
            let log = w.log.clone();
            let scn2 = scn.clone();
            let accept = tokio::spawn(async move {
                let c = sut_server_accept(&log, "app", &ep, &scn2).await;
                (c, ep)
            });
            let conn = match cep
                .connect_with(raw_client_config(&cfg), addr, "localhost")
                .expect("connect")
                .await
            {
                Ok(c) => c,
                Err(e) => {
                    w.log.emit("peer", "raw_connect", fields! {"res" => "err", "why" => quinn_close(&e)});
                    return;
                }
            };
            w.log.emit("peer", "raw_connect", fields! {"res" => "ok"});
            spawn_raw_recorders(w, conn.clone(), true);
            w.raw = Some(conn.clone());
            w.keep.push(Box::new(cep));
            if !manual {
                // optionally burn bidirectional stream ids so that the session id is not 0:
                // each burnt stream is reset at once (an empty, silent stream would stall the server)
                for _ in 0..u(&cfg, "burn_bidi", 0) {
                    if let Ok(Ok((mut bs, _br))) = timeout(Duration::from_secs(5), conn.open_bi()).await {
                        let _ = bs.reset(quinn::VarInt::from_u32(0));
                    }
                }
                // control stream + SETTINGS, then the CONNECT request
                let mut ctrl = conn.open_uni().await.expect("open ctrl");
                let mut b = vec![0x00];
                b.extend(gen::frame(4, &default_settings_payload()));
                ctrl.write_all(&b).await.expect("write settings");
                w.streams.lock().await.send.insert(key("peer", "ctrl"), SendH::Raw(ctrl));
                let (mut rs, rr) = conn.open_bi().await.expect("open req");
                let reqp = if scn.get("request_bytes").is_some() {
                    byte_arr(scn, "request_bytes")
                } else {
                    gen::frame(1, &default_request_payload())
                };
                rs.write_all(&reqp).await.expect("write request");
                w.streams.lock().await.send.insert(key("peer", "req"), SendH::Raw(rs));
                spawn_raw_reader(w, "req", rr, "bi");
                match timeout(Duration::from_secs(15), accept).await {
                    Ok(Ok((c, ep))) => {
                        w.app = c;
                        w.keep.push(Box::new(ep));
                    }
                    _ => w.log.emit("app", "server_session", fields! {"res" => "setup_hang"}),
                }
            } else {
                // the script drives the peer; the server side keeps accepting in the background
                let log = w.log.clone();
                let holder: Arc<Mutex<Option<Connection>>> = Arc::new(Mutex::new(None));
                let h2 = holder.clone();
                w.bg.push(tokio::spawn(async move {
                    if let Ok((c, ep)) = accept.await {
                        log.emit("app", "session_ready", fields! {"ok" => c.is_some()});
                        *h2.lock().unwrap() = c;
                        // keep the endpoint alive
                        std::future::pending::<()>().await;
                        drop(ep);
                    }
                }));
                w.keep.push(Box::new(holder));
            }
        }
        ("client", "raw") => {
            let sep = quinn::Endpoint::server(raw_server_config(&cfg), "127.0.0.1:0".parse().unwrap())
                .expect("raw server ep");
            let addr = sep.local_addr().unwrap();
            let cep = Endpoint::client(sut_client_config(&cfg, addr)).expect("client ep");
            let log = w.log.clone();
            let scn2 = scn.clone();
            let connect = tokio::spawn(async move {
                let c = sut_client_connect(&log, "app", &cep, &scn2, addr).await;
                (c, cep)
            });
            let conn = match timeout(Duration::from_secs(10), async { sep.accept().await.unwrap().await }).await {
                Ok(Ok(c)) => c,
                _ => {
                    w.log.emit("peer", "raw_accept", fields! {"res" => "err"});
                    if let Ok(Ok((c, cep))) = timeout(Duration::from_secs(12), connect).await {
                        w.app = c;
                        w.keep.push(Box::new(cep));
                    }
                    return;
                }
            };
            w.log.emit("peer", "raw_accept", fields! {"res" => "ok",
                "alpn" => conn.handshake_data().and_then(|h| h.downcast::<quinn::crypto::rustls::HandshakeData>().ok()).and_then(|h| h.protocol.clone()).map(|p| jbytes(&p)).unwrap_or(json!([]))});
            w.raw = Some(conn.clone());
            w.keep.push(Box::new(sep));
            if !manual {
                spawn_raw_recorders(w, conn.clone(), false);
                let mut ctrl = conn.open_uni().await.expect("open ctrl");
                let mut b = vec![0x00];
                b.extend(gen::frame(4, &default_settings_payload()));
                ctrl.write_all(&b).await.expect("write settings");
                w.streams.lock().await.send.insert(key("peer", "ctrl"), SendH::Raw(ctrl));
                // the request stream
                match timeout(Duration::from_secs(10), conn.accept_bi()).await {
                    Ok(Ok((mut rs, mut rr))) => {
                        let f = raw_read_frame(&mut rr).await;
                        let mut m = fields! {"id" => v62(u64::from(quinn::VarInt::from(rr.id())))};
                        if let Some((ty, p)) = &f {
                            m.insert("type".into(), v62(*ty));
                            data_fields(&mut m, p);
                        }
                        w.log.emit("peer", "rx_request", m);
                        let resp = if scn.get("response_bytes").is_some() {
                            byte_arr(scn, "response_bytes")
                        } else {
                            gen::frame(1, &gen::q_section(&[gen::q_indexed_static(25)]))
                        };
                        let _ = rs.write_all(&resp).await;
                        if scn.get("response_fin").and_then(|v| v.as_bool()).unwrap_or(false) {
                            let _ = rs.finish();
                        }
                        w.streams.lock().await.send.insert(key("peer", "req"), SendH::Raw(rs));
                        spawn_raw_reader(w, "req", rr, "bi");
                    }
                    _ => w.log.emit("peer", "rx_request", fields! {"res" => "none"}),
                }
                // later incoming bidi streams
                let log = w.log.clone();
                let c = conn.clone();
                let streams = w.streams.clone();
                w.bg.push(tokio::spawn(async move {
                    while let Ok((snd, mut r)) = c.accept_bi().await {
                        let id = u64::from(quinn::VarInt::from(r.id()));
                        streams.lock().await.send.insert(key("peer", &format!("in{id}")), SendH::Raw(snd));
                        let log = log.clone();
                        tokio::spawn(async move {
                            let mut all = Vec::new();
                            let mut buf = vec![0u8; 4096];
                            let end = loop {
                                match r.read(&mut buf).await {
                                    Ok(Some(n)) => all.extend_from_slice(&buf[..n]),
                                    Ok(None) => break json!({"k": "fin"}),
                                    Err(quinn::ReadError::Reset(c)) => break json!({"k": "reset", "code": v62(c.into_inner())}),
                                    Err(_) => break json!({"k": "conn"}),
                                }
                            };
                            let mut m = fields! {"dir" => "bi", "id" => v62(id), "end" => end};
                            data_fields(&mut m, &all);
                            log.emit("peer", "rx_stream", m);
                        });
                    }
                }));
                match timeout(Duration::from_secs(15), connect).await {
                    Ok(Ok((c, cep))) => {
                        w.app = c;
                        w.keep.push(Box::new(cep));
                    }
                    _ => w.log.emit("app", "connect_returned", fields! {"res" => "setup_hang"}),
                }
            } else {
                spawn_raw_recorders(w, conn.clone(), true);
                let log = w.log.clone();
                let holder: Arc<Mutex<Option<Connection>>> = Arc::new(Mutex::new(None));
                let h2 = holder.clone();
                w.bg.push(tokio::spawn(async move {
                    if let Ok((c, cep)) = connect.await {
                        log.emit("app", "session_ready", fields! {"ok" => c.is_some()});
                        *h2.lock().unwrap() = c;
                        std::future::pending::<()>().await;
                        drop(cep);
                    }
                }));
                w.keep.push(Box::new(holder));
            }
        }
        (_, "wt") => {
            // two wtransport endpoints: "app" has the scripted role, "app2" the other one
            let id = make_identity(s(&cfg, "server_identity"));
            let server_hash = id.certificate_chain().as_slice()[0].hash();
            let mut id_slot = Some(id);
            let Some(sep) = retry_ep(&w.log, "server endpoint", || {
                let id = id_slot.take().unwrap_or_else(|| make_identity(s(&cfg, "server_identity")));
                Endpoint::server(sut_server_config_with(&cfg, id))
            }).await else { return };
            let addr: SocketAddr = format!("127.0.0.1:{}", sep.local_addr().unwrap().port())
                .parse()
                .unwrap();
            let cep = Endpoint::client(sut_client_config_with(&cfg, addr, Some(server_hash))).expect("client ep");
            // cfg.link: the client reaches the server through a relay the script can cut
            let addr = if cfg.get("link").and_then(|v| v.as_bool()).unwrap_or(false) {
                let (a, h) = spawn_link(addr, w.cut.clone()).await;
                w.bg.push(h);
                a
            } else {
                addr
            };
            let (swho, cwho) = if role == "server" { ("app", "app2") } else { ("app2", "app") };
            let log = w.log.clone();
            let scn2 = scn.clone();
            let swho2 = swho.to_string();
            let accept = tokio::spawn(async move {
                let c = sut_server_accept(&log, &swho2, &sep, &scn2).await;
                (c, sep)
            });
            let cc = sut_client_connect(&w.log, cwho, &cep, scn, addr).await;
            // a client that was refused at the TLS level never reaches the server's session
            // layer: do not wait long for a request that cannot come
            let wait = if cc.is_some() { 12_000 } else { 1_500 };
            let mut accept = accept;
            let sc = match timeout(Duration::from_millis(wait), &mut accept).await {
                Ok(Ok((c, sep))) => {
                    w.keep.push(Box::new(sep));
                    c
                }
                _ => {
                    accept.abort();
                    None
                }
            };
            w.keep.push(Box::new(cep));
            if role == "server" {
                w.app = sc;
                w.app2 = cc;
            } else {
                w.app = cc;
                w.app2 = sc;
            }
        }
        _ => panic!("bad scenario role/peer"),
    }
}

// --------------------------------------------------------------------- steps

fn conn_of<'a>(w: &'a World, who: &str) -> Option<&'a Connection> {
    if who == "app2" {
        w.app2.as_ref()
    } else {
        w.app.as_ref()
    }
}

async fn read_to_end(
    r: &mut RecvH,
    bufsize: usize,
    limit: usize,
    ms: u64,
    quiet: Option<(usize, u64)>,
    rapi: &str,
) -> (Vec<u8>, Value, Vec<usize>) {
    let mut all = Vec::new();
    let mut sizes = Vec::new();
    let mut buf = vec![0u8; bufsize.max(1)];
    let mut deadline = tokio::time::Instant::now() + Duration::from_millis(ms);
    let mut shortened = false;
    let end = loop {
        if all.len() >= limit {
            break json!({"k": "limit"});
        }
        // `quiet = (want, grace)`: once `want` bytes have arrived only `grace` more ms are spent
        // looking for anything further (the long budget is for slow delivery, not for silence)
        if let Some((want, grace)) = quiet {
            if !shortened && all.len() >= want {
                shortened = true;
                deadline = deadline.min(tokio::time::Instant::now() + Duration::from_millis(grace));
            }
        }
        let want = buf.len().min(limit - all.len());
        let res = match r {
            // `api = "tokio"`: through the tokio::io::AsyncRead impl (0 bytes = end of stream)
            RecvH::App(x) if rapi == "tokio" => {
                match tokio::time::timeout_at(deadline, tokio::io::AsyncReadExt::read(x, &mut buf[..want])).await {
                    Ok(Ok(0)) => Ok(None),
                    Ok(Ok(n)) => Ok(Some(n)),
                    Ok(Err(e)) => Err(json!({"k": "err", "err": {"k": "io", "text": e.to_string()}})),
                    Err(_) => Err(json!({"k": "timeout"})),
                }
            }
            RecvH::App(x) => match tokio::time::timeout_at(deadline, x.read(&mut buf[..want])).await {
                Ok(Ok(Some(n))) => Ok(Some(n)),
                Ok(Ok(None)) => Ok(None),
                Ok(Err(e)) => Err(json!({"k": "err", "err": read_err(&e)})),
                Err(_) => Err(json!({"k": "timeout"})),
            },
            RecvH::Raw(x) => match tokio::time::timeout_at(deadline, x.read(&mut buf[..want])).await {
                Ok(Ok(Some(n))) => Ok(Some(n)),
                Ok(Ok(None)) => Ok(None),
                Ok(Err(quinn::ReadError::Reset(c))) => {
                    Err(json!({"k": "err", "err": {"k": "Reset", "code": v62(c.into_inner())}}))
                }
                Ok(Err(_)) => Err(json!({"k": "err", "err": {"k": "NotConnected"}})),
                Err(_) => Err(json!({"k": "timeout"})),
            },
        };
        match res {
            Ok(Some(n)) => {
                all.extend_from_slice(&buf[..n]);
                if sizes.len() < 64 {
                    sizes.push(n);
                }
            }
            Ok(None) => break json!({"k": "fin"}),
            Err(v) => break v,
        }
    };
    (all, end, sizes)
}

/// One background-able operation on the connection under test.
async fn conn_op(
    log: Arc<Log>,
    who: String,
    conn: Connection,
    streams: Shared<Streams>,
    step: Value,
) {
    let op = s(&step, "op").to_string();
    let tag = s(&step, "tag").to_string();
    let ms = u(&step, "ms", 5000);
    let mut m = fields! {"op" => op.clone(), "tag" => tag.clone()};
    let dl = Duration::from_millis(ms);
    match op.as_str() {
        "accept_uni" => match timeout(dl, conn.accept_uni()).await {
            Ok(Ok(r)) => {
                m.insert("res".into(), json!("ok"));
                m.insert("id".into(), v62(r.id().into_u64()));
                streams.lock().await.recv.insert(key(&who, &tag), RecvH::App(r));
            }
            Ok(Err(e)) => {
                m.insert("res".into(), json!("err"));
                m.insert("err".into(), conn_err(&e));
            }
            Err(_) => {
                m.insert("res".into(), json!("timeout"));
            }
        },
        "accept_bi" => match timeout(dl, conn.accept_bi()).await {
            Ok(Ok((sx, r))) => {
                m.insert("res".into(), json!("ok"));
                m.insert("id".into(), v62(r.id().into_u64()));
                let mut g = streams.lock().await;
                g.recv.insert(key(&who, &tag), RecvH::App(r));
                g.send.insert(key(&who, &tag), SendH::App(sx));
            }
            Ok(Err(e)) => {
                m.insert("res".into(), json!("err"));
                m.insert("err".into(), conn_err(&e));
            }
            Err(_) => {
                m.insert("res".into(), json!("timeout"));
            }
        },
        "recv_dgram" => match timeout(dl, conn.receive_datagram()).await {
            Ok(Ok(d)) => {
                m.insert("res".into(), json!("ok"));
                let p = d.payload();
                data_fields(&mut m, &p);
                m.insert("deref_same".into(), json!(&d[..] == &p[..]));
            }
            Ok(Err(e)) => {
                m.insert("res".into(), json!("err"));
                m.insert("err".into(), conn_err(&e));
            }
            Err(_) => {
                m.insert("res".into(), json!("timeout"));
            }
        },
        "closed" => match timeout(dl, conn.closed()).await {
            Ok(e) => {
                m.insert("res".into(), json!("err"));
                m.insert("err".into(), conn_err(&e));
            }
            Err(_) => {
                m.insert("res".into(), json!("timeout"));
            }
        },
        "open_uni" => match timeout(dl, async { conn.open_uni().await }).await {
            Ok(Ok(opening)) => match timeout(dl, opening).await {
                Ok(Ok(sx)) => {
                    m.insert("res".into(), json!("ok"));
                    m.insert("id".into(), v62(sx.id().into_u64()));
                    streams.lock().await.send.insert(key(&who, &tag), SendH::App(sx));
                }
                Ok(Err(e)) => {
                    m.insert("res".into(), json!("err"));
                    m.insert("err".into(), json!({"k": match e {
                        StreamOpeningError::NotConnected => "OpeningNotConnected",
                        StreamOpeningError::Refused => "OpeningRefused",
                    }}));
                }
                Err(_) => {
                    m.insert("res".into(), json!("timeout"));
                }
            },
            Ok(Err(e)) => {
                m.insert("res".into(), json!("err"));
                m.insert("err".into(), conn_err(&e));
            }
            Err(_) => {
                m.insert("res".into(), json!("timeout"));
            }
        },
        "open_bi" => match timeout(dl, async { conn.open_bi().await }).await {
            Ok(Ok(opening)) => match timeout(dl, opening).await {
                Ok(Ok((sx, r))) => {
                    m.insert("res".into(), json!("ok"));
                    m.insert("id".into(), v62(sx.id().into_u64()));
                    let mut g = streams.lock().await;
                    g.send.insert(key(&who, &tag), SendH::App(sx));
                    g.recv.insert(key(&who, &tag), RecvH::App(r));
                }
                Ok(Err(e)) => {
                    m.insert("res".into(), json!("err"));
                    m.insert("err".into(), json!({"k": match e {
                        StreamOpeningError::NotConnected => "OpeningNotConnected",
                        StreamOpeningError::Refused => "OpeningRefused",
                    }}));
                }
                Err(_) => {
                    m.insert("res".into(), json!("timeout"));
                }
            },
            Ok(Err(e)) => {
                m.insert("res".into(), json!("err"));
                m.insert("err".into(), conn_err(&e));
            }
            Err(_) => {
                m.insert("res".into(), json!("timeout"));
            }
        },
        "accept_n_uni" | "accept_n_bi" => {
            // accept up to `n` streams (stops at the first error or when `ms` runs out);
            // `cancel_ms`: every pending accept is dropped after that long and reissued;
            // each accepted stream's first 8 bytes are read and logged
            let n = u(&step, "n", 1);
            let delay = u(&step, "delay_ms", 0);
            let cancel = step.get("cancel_ms").and_then(|v| v.as_u64());
            let deadline = tokio::time::Instant::now() + dl;
            let mut got = 0u64;
            let mut cancelled = 0u64;
            let mut last = json!("budget");
            // give up after `idle_ms` without a new stream (other acceptors may have taken them all)
            let idle = Duration::from_millis(u(&step, "idle_ms", 2500));
            // `pure`: every accept is one uninterrupted await (never re-polled by a timeout), the
            // way an application task blocked in accept behaves; the caller takes exactly `n`
            let pure = step.get("pure").and_then(|v| v.as_bool()).unwrap_or(false);
            let poll_once = step.get("poll_once").and_then(|v| v.as_bool()).unwrap_or(false);
            let mut last_progress = tokio::time::Instant::now();
            while got < n && tokio::time::Instant::now() < deadline {
                if !pure && tokio::time::Instant::now() - last_progress > idle {
                    last = json!("idle");
                    break;
                }
                let slice = match cancel {
                    Some(c) => Duration::from_millis(c),
                    None if pure => deadline - tokio::time::Instant::now(),
                    None => (deadline - tokio::time::Instant::now()).min(idle),
                };
                if poll_once {
                    // the accept future is polled exactly once and dropped if it is not ready (the
                    // documented cancel safety: nothing may be lost by that), then reissued after a pause
                    let r: Option<Result<(u64, Option<wtransport::RecvStream>, &str), ConnectionError>> = if op == "accept_n_uni" {
                        let mut fut = std::pin::pin!(conn.accept_uni());
                        tokio::select! { biased;
                            r = &mut fut => Some(r.map(|x| (x.id().into_u64(), Some(x), "uni"))),
                            _ = std::future::ready(()) => None,
                        }
                    } else {
                        let mut fut = std::pin::pin!(conn.accept_bi());
                        tokio::select! { biased;
                            r = &mut fut => Some(r.map(|(_s, x)| (x.id().into_u64(), Some(x), "bi"))),
                            _ = std::future::ready(()) => None,
                        }
                    };
                    match r {
                        Some(Ok((id, Some(mut rx), kind))) => {
                            got += 1;
                            last_progress = tokio::time::Instant::now();
                            let mut b = [0u8; 8];
                            let first = match timeout(Duration::from_millis(3000), rx.read_exact(&mut b)).await {
                                Ok(Ok(())) => jbytes(&b),
                                _ => json!([]),
                            };
                            log.emit(&who, "accepted", fields! {"kind" => kind, "caller" => tag.clone(), "id" => v62(id), "first" => first});
                        }
                        Some(Ok(_)) => {}
                        Some(Err(e)) => {
                            last = conn_err(&e);
                            break;
                        }
                        None => {
                            cancelled += 1;
                            tokio::time::sleep(Duration::from_millis(cancel.unwrap_or(1))).await;
                        }
                    }
                } else if op == "accept_n_uni" {
                    match timeout(slice, conn.accept_uni()).await {
                        Ok(Ok(mut r)) => {
                            got += 1;
                            last_progress = tokio::time::Instant::now();
                            let mut b = [0u8; 8];
                            let first = match timeout(Duration::from_millis(3000), r.read_exact(&mut b)).await {
                                Ok(Ok(())) => jbytes(&b),
                                _ => json!([]),
                            };
                            log.emit(&who, "accepted", fields! {"kind" => "uni", "caller" => tag.clone(),
                                "id" => v62(r.id().into_u64()), "first" => first});
                        }
                        Ok(Err(e)) => {
                            last = conn_err(&e);
                            break;
                        }
                        Err(_) => cancelled += 1,
                    }
                } else {
                    match timeout(slice, conn.accept_bi()).await {
                        Ok(Ok((_sx, mut r))) => {
                            got += 1;
                            last_progress = tokio::time::Instant::now();
                            let mut b = [0u8; 8];
                            let first = match timeout(Duration::from_millis(3000), r.read_exact(&mut b)).await {
                                Ok(Ok(())) => jbytes(&b),
                                _ => json!([]),
                            };
                            log.emit(&who, "accepted", fields! {"kind" => "bi", "caller" => tag.clone(),
                                "id" => v62(r.id().into_u64()), "first" => first});
                        }
                        Ok(Err(e)) => {
                            last = conn_err(&e);
                            break;
                        }
                        Err(_) => cancelled += 1,
                    }
                }
                if delay > 0 {
                    tokio::time::sleep(Duration::from_millis(delay)).await;
                }
            }
            m.insert("res".into(), json!("done"));
            m.insert("got".into(), json!(got));
            m.insert("cancelled".into(), json!(cancelled));
            m.insert("last".into(), last);
        }
        "open_n_uni" | "open_n_bi" => {
            // open `n` streams, write the stream id (8 bytes) as payload, finish
            let n = u(&step, "n", 1);
            let mut okc = 0u64;
            for _ in 0..n {
                if op == "open_n_uni" {
                    let Ok(Ok(opening)) = timeout(dl, conn.open_uni()).await else { break };
                    let Ok(Ok(mut sx)) = timeout(dl, opening).await else { break };
                    let id = sx.id().into_u64();
                    let _ = sx.write_all(&id.to_be_bytes()).await;
                    log.emit(&who, "opened", fields! {"kind" => "uni", "id" => v62(id)});
                    let _ = timeout(Duration::from_millis(50), sx.finish()).await;
                    okc += 1;
                } else {
                    let Ok(Ok(opening)) = timeout(dl, conn.open_bi()).await else { break };
                    let Ok(Ok((mut sx, _r))) = timeout(dl, opening).await else { break };
                    let id = sx.id().into_u64();
                    let _ = sx.write_all(&id.to_be_bytes()).await;
                    log.emit(&who, "opened", fields! {"kind" => "bi", "id" => v62(id)});
                    let _ = timeout(Duration::from_millis(50), sx.finish()).await;
                    okc += 1;
                }
            }
            m.insert("res".into(), json!("done"));
            m.insert("opened".into(), json!(okc));
        }
        _ => {
            m.insert("res".into(), json!("badop"));
        }
    }
    log.emit(&who, "op_done", m);
}

/// One background-able operation on a stream handle.
async fn stream_op(log: Arc<Log>, who: String, streams: Shared<Streams>, step: Value) {
    let op = s(&step, "op").to_string();
    let tag = s(&step, "tag").to_string();
    let ms = u(&step, "ms", 5000);
    let dl = Duration::from_millis(ms);
    let k = key(&who, &tag);
    let mut m = fields! {"op" => op.clone(), "tag" => tag.clone()};
    match op.as_str() {
        "read" => {
            let h = streams.lock().await.recv.remove(&k);
            match h {
                Some(mut r) => {
                    let bufsize = u(&step, "buf", 4096) as usize;
                    let limit = u(&step, "limit", 64 << 20) as usize;
                    let prior = streams.lock().await.roff.get(&k).copied().unwrap_or(0);
                    let quiet = step.get("want").and_then(|v| v.as_u64()).map(|w| (w as usize, u(&step, "grace_ms", 80)));
                    let (all, end, sizes) = read_to_end(&mut r, bufsize, limit, ms, quiet, s(&step, "api")).await;
                    streams.lock().await.roff.insert(k.clone(), prior + all.len());
                    m.insert("prior".into(), json!(prior));
                    data_fields(&mut m, &all);
                    m.insert("end".into(), end);
                    m.insert("sizes".into(), json!(sizes));
                    m.insert("res".into(), json!("done"));
                    let by_id = step.get("salt_from_id").is_some();
                    if step.get("salt").is_some() || by_id {
                        // measurement: longest prefix equal to the position-determined pattern
                        let salt = if by_id {
                            match &r {
                                RecvH::App(x) => ((x.id().into_u64() >> 2) % 200) as usize,
                                RecvH::Raw(x) => ((u64::from(quinn::VarInt::from(x.id())) >> 2) % 200) as usize,
                            }
                        } else {
                            u(&step, "salt", 0) as usize
                        };
                        let off = u(&step, "off", 0) as usize + prior;
                        let upto = all
                            .iter()
                            .enumerate()
                            .take_while(|(i, b)| **b == gen::pat(off + i, salt))
                            .count();
                        m.insert("pat_upto".into(), json!(upto));
                        m.insert("salt".into(), json!(salt));
                    }
                    streams.lock().await.recv.insert(k, r);
                }
                None => {
                    m.insert("res".into(), json!("nohandle"));
                }
            }
        }
        "write" => {
            let h = streams.lock().await.send.remove(&k);
            match h {
                Some(mut sx) => {
                    let salt_eff = if step.get("salt_from_id").is_some() {
                        match &sx {
                            SendH::App(x) => ((x.id().into_u64() >> 2) % 200) as usize,
                            SendH::Raw(x) => ((u64::from(quinn::VarInt::from(x.id())) >> 2) % 200) as usize,
                        }
                    } else {
                        u(&step, "salt", 0) as usize
                    };
                    let wprior = streams.lock().await.woff.get(&k).copied().unwrap_or(0);
                    let mut step = step.clone();
                    if step.get("bytes").is_none() && step.get("off").is_none() {
                        step["off"] = json!(wprior);
                    }
                    let data = payload_salted(&step, salt_eff);
                    let chunk = u(&step, "chunk", 0) as usize;
                    let wapi = s(&step, "api").to_string();
                    let mut off = 0usize;
                    let mut res = json!({"k": "ok"});
                    let r = timeout(dl, async {
                        while off < data.len() {
                            let end = if chunk == 0 { data.len() } else { (off + chunk).min(data.len()) };
                            let wr = match &mut sx {
                                // `api`: which of the stream's write interfaces carries the bytes
                                //   "tokio"    tokio::io::AsyncWriteExt::write_all on the AsyncWrite impl
                                //   "vectored" AsyncWriteExt::write_vectored with the piece cut into 4 slices
                                SendH::App(x) if wapi == "tokio" => tokio::io::AsyncWriteExt::write_all(x, &data[off..end])
                                    .await
                                    .map_err(|e| json!({"k": "io", "text": e.to_string()})),
                                SendH::App(x) if wapi == "vectored" => {
                                    let piece = &data[off..end];
                                    let q = (piece.len() / 4).max(1);
                                    let mut pos = 0usize;
                                    let mut out = Ok(());
                                    while pos < piece.len() {
                                        let rest = &piece[pos..];
                                        let slices: Vec<std::io::IoSlice> = rest.chunks(q).map(std::io::IoSlice::new).collect();
                                        match tokio::io::AsyncWriteExt::write_vectored(x, &slices).await {
                                            Ok(0) => {
                                                out = Err(json!({"k": "io", "text": "write_vectored returned 0"}));
                                                break;
                                            }
                                            Ok(n) => pos += n.min(rest.len()),
                                            Err(e) => {
                                                out = Err(json!({"k": "io", "text": e.to_string()}));
                                                break;
                                            }
                                        }
                                    }
                                    out
                                }
                                SendH::App(x) => x.write_all(&data[off..end]).await.map_err(|e| write_err(&e)),
                                SendH::Raw(x) => x.write_all(&data[off..end]).await.map_err(|e| match e {
                                    quinn::WriteError::Stopped(c) => json!({"k": "Stopped", "code": v62(c.into_inner())}),
                                    _ => json!({"k": "NotConnected"}),
                                }),
                            };
                            match wr {
                                Ok(()) => off = end,
                                Err(e) => return Err(e),
                            }
                        }
                        Ok(())
                    })
                    .await;
                    match r {
                        Ok(Ok(())) => {}
                        Ok(Err(e)) => res = json!({"k": "err", "err": e}),
                        Err(_) => res = json!({"k": "timeout"}),
                    }
                    let write_ok = res["k"] == "ok";
                    streams.lock().await.woff.insert(k.clone(), wprior + off);
                    m.insert("res".into(), res);
                    m.insert("written".into(), json!(off));
                    m.insert("len".into(), json!(data.len()));
                    m.insert("salt".into(), json!(salt_eff));
                    m.insert("off".into(), json!(u(&step, "off", 0)));
                    if step.get("bytes").is_some() {
                        m.insert("bytes".into(), step["bytes"].clone());
                    }
                    if write_ok && step.get("then_finish").and_then(|v| v.as_bool()).unwrap_or(false) {
                        log.emit(&who, "op_done", m);
                        m = fields! {"op" => "finish", "tag" => tag.clone()};
                        let r = match &mut sx {
                            // with the tokio interfaces the stream is ended through AsyncWriteExt::shutdown
                            SendH::App(x) if wapi == "tokio" || wapi == "vectored" => {
                                match timeout(dl, tokio::io::AsyncWriteExt::shutdown(x)).await {
                                    Ok(Ok(())) => json!({"k": "ok"}),
                                    Ok(Err(e)) => json!({"k": "err", "err": {"k": "io", "text": e.to_string()}}),
                                    Err(_) => json!({"k": "timeout"}),
                                }
                            }
                            SendH::App(x) => match timeout(dl, x.finish()).await {
                                Ok(Ok(())) => json!({"k": "ok"}),
                                Ok(Err(e)) => json!({"k": "err", "err": write_err(&e)}),
                                Err(_) => json!({"k": "timeout"}),
                            },
                            SendH::Raw(x) => match x.finish() {
                                Ok(()) => json!({"k": "ok"}),
                                Err(_) => json!({"k": "err", "err": {"k": "Closed"}}),
                            },
                        };
                        m.insert("res".into(), r);
                    }
                    streams.lock().await.send.insert(k, sx);
                }
                None => {
                    m.insert("res".into(), json!({"k": "nohandle"}));
                }
            }
        }
        "bistream" => {
            // the two halves joined into a BiStream: write `len` pattern bytes and shut down through its
            // AsyncWrite side, then read to the end through its AsyncRead side (the object stays alive),
            // split again.  Logged as the usual write / finish / read results.
            let sh = streams.lock().await.send.remove(&k);
            let rh = streams.lock().await.recv.remove(&k);
            match (sh, rh) {
                (Some(SendH::App(sx)), Some(RecvH::App(rx))) => {
                    let mut bi = wtransport::stream::BiStream::join((sx, rx));
                    let salt = u(&step, "salt", 0) as usize;
                    let data = payload_salted(&step, salt);
                    let wr = timeout(dl, tokio::io::AsyncWriteExt::write_all(&mut bi, &data)).await;
                    let wres = match wr {
                        Ok(Ok(())) => json!({"k": "ok"}),
                        Ok(Err(e)) => json!({"k": "err", "err": {"k": "io", "text": e.to_string()}}),
                        Err(_) => json!({"k": "timeout"}),
                    };
                    let wok = wres["k"] == "ok";
                    log.emit(&who, "op_done", fields! {"op" => "write", "tag" => tag.clone(), "res" => wres,
                        "written" => if wok { data.len() } else { 0 }, "len" => data.len(), "salt" => salt, "off" => 0});
                    let fr = match timeout(dl, tokio::io::AsyncWriteExt::shutdown(&mut bi)).await {
                        Ok(Ok(())) => json!({"k": "ok"}),
                        Ok(Err(e)) => json!({"k": "err", "err": {"k": "io", "text": e.to_string()}}),
                        Err(_) => json!({"k": "timeout"}),
                    };
                    log.emit(&who, "op_done", fields! {"op" => "finish", "tag" => tag.clone(), "res" => fr});
                    let mut all = Vec::new();
                    let mut buf = vec![0u8; u(&step, "buf", 4096).max(1) as usize];
                    let deadline = tokio::time::Instant::now() + Duration::from_millis(ms);
                    let end = loop {
                        match tokio::time::timeout_at(deadline, tokio::io::AsyncReadExt::read(&mut bi, &mut buf)).await {
                            Ok(Ok(0)) => break json!({"k": "fin"}),
                            Ok(Ok(n)) => all.extend_from_slice(&buf[..n]),
                            Ok(Err(e)) => break json!({"k": "err", "err": {"k": "io", "text": e.to_string()}}),
                            Err(_) => break json!({"k": "timeout"}),
                        }
                    };
                    let rsalt = u(&step, "rsalt", 0) as usize;
                    m.insert("op".into(), json!("read"));
                    m.insert("prior".into(), json!(0));
                    data_fields(&mut m, &all);
                    m.insert("end".into(), end);
                    m.insert("res".into(), json!("done"));
                    let upto = all.iter().enumerate().take_while(|(i, b)| **b == gen::pat(*i, rsalt)).count();
                    m.insert("pat_upto".into(), json!(upto));
                    m.insert("salt".into(), json!(rsalt));
                    let (sx, rx) = bi.split();
                    let mut g = streams.lock().await;
                    g.send.insert(k.clone(), SendH::App(sx));
                    g.recv.insert(k, RecvH::App(rx));
                }
                (a, b) => {
                    let mut g = streams.lock().await;
                    if let Some(a) = a {
                        g.send.insert(k.clone(), a);
                    }
                    if let Some(b) = b {
                        g.recv.insert(k.clone(), b);
                    }
                    m.insert("res".into(), json!({"k": "nohandle"}));
                }
            }
        }
        "finish" => {
            let h = streams.lock().await.send.remove(&k);
            match h {
                Some(mut sx) => {
                    // `poll_once`: the finish future is polled once and dropped if it is not ready yet
                    // (an application that gives up waiting); reported as its own event, not as a result
                    if step.get("poll_once").and_then(|v| v.as_bool()).unwrap_or(false) {
                        if let SendH::App(x) = &mut sx {
                            let ready = {
                                let mut fut = std::pin::pin!(x.finish());
                                tokio::select! { biased;
                                    r = &mut fut => Some(r.is_ok()),
                                    _ = std::future::ready(()) => None,
                                }
                            };
                            log.emit(&who, "finish_polled_once", fields! {"tag" => tag.clone(),
                                "ready" => ready.is_some(), "ok" => ready.unwrap_or(false)});
                        }
                        streams.lock().await.send.insert(k, sx);
                        return;
                    }
                    let r = match &mut sx {
                        SendH::App(x) => match timeout(dl, x.finish()).await {
                            Ok(Ok(())) => json!({"k": "ok"}),
                            Ok(Err(e)) => json!({"k": "err", "err": write_err(&e)}),
                            Err(_) => json!({"k": "timeout"}),
                        },
                        SendH::Raw(x) => match x.finish() {
                            Ok(()) => json!({"k": "ok"}),
                            Err(_) => json!({"k": "err", "err": {"k": "Closed"}}),
                        },
                    };
                    m.insert("res".into(), r);
                    streams.lock().await.send.insert(k, sx);
                }
                None => {
                    m.insert("res".into(), json!({"k": "nohandle"}));
                }
            }
        }
        "stopped" => {
            let h = streams.lock().await.send.remove(&k);
            match h {
                Some(mut sx) => {
                    let r = match &mut sx {
                        SendH::App(x) => match timeout(dl, x.stopped()).await {
                            Ok(e) => json!({"k": "err", "err": write_err(&e)}),
                            Err(_) => json!({"k": "timeout"}),
                        },
                        SendH::Raw(x) => match timeout(dl, x.stopped()).await {
                            Ok(Ok(Some(c))) => json!({"k": "err", "err": {"k": "Stopped", "code": v62(c.into_inner())}}),
                            Ok(Ok(None)) => json!({"k": "err", "err": {"k": "Closed"}}),
                            Ok(Err(_)) => json!({"k": "err", "err": {"k": "NotConnected"}}),
                            Err(_) => json!({"k": "timeout"}),
                        },
                    };
                    m.insert("res".into(), r);
                    streams.lock().await.send.insert(k, sx);
                }
                None => {
                    m.insert("res".into(), json!({"k": "nohandle"}));
                }
            }
        }
        _ => {
            m.insert("res".into(), json!("badop"));
        }
    }
    log.emit(&who, "op_done", m);
}

async fn run_step(w: &mut World, step: &Value) {
    let who = s(step, "who").to_string();
    let a = s(step, "a").to_string();
    let tag = s(step, "tag").to_string();
    match (who.as_str(), a.as_str()) {
        (_, "sleep") => {
            tokio::time::sleep(Duration::from_millis(u(step, "ms", 10))).await;
        }
        // the link between the two endpoints is cut / restored (cfg.link); logged as an operation of
        // the scripted side so that the stream monitors see it in program order
        (_, "link") => {
            let cut = step.get("cut").and_then(|v| v.as_bool()).unwrap_or(false);
            w.cut.store(cut, Ordering::SeqCst);
            w.log.emit(&who, "op_done", fields! {"op" => if cut { "cut" } else { "uncut" }, "tag" => tag.clone(), "res" => "ok"});
        }
        (_, "mark") => {
            w.log.emit(&who, "mark", fields! {"name" => s(step, "name")});
        }
        // ------------------------------------------------ raw peer
        ("peer", "open_uni") | ("peer", "open_bi") => {
            let Some(c) = w.raw.clone() else { return };
            let mut m = fields! {"tag" => tag.clone(), "a" => a.clone()};
            if a == "open_uni" {
                match timeout(Duration::from_millis(u(step, "ms", 3000)), c.open_uni()).await {
                    Ok(Ok(sx)) => {
                        m.insert("res".into(), json!("ok"));
                        m.insert("id".into(), v62(u64::from(quinn::VarInt::from(sx.id()))));
                        w.streams.lock().await.send.insert(key("peer", &tag), SendH::Raw(sx));
                    }
                    Ok(Err(_)) => {
                        m.insert("res".into(), json!("err"));
                    }
                    Err(_) => {
                        m.insert("res".into(), json!("blocked"));
                    }
                }
            } else {
                match timeout(Duration::from_millis(u(step, "ms", 3000)), c.open_bi()).await {
                    Ok(Ok((sx, r))) => {
                        m.insert("res".into(), json!("ok"));
                        m.insert("id".into(), v62(u64::from(quinn::VarInt::from(sx.id()))));
                        let mut g = w.streams.lock().await;
                        g.send.insert(key("peer", &tag), SendH::Raw(sx));
                        if step.get("record").and_then(|v| v.as_bool()).unwrap_or(true) {
                            drop(g);
                            spawn_raw_reader(w, &tag, r, "bi");
                        } else {
                            g.recv.insert(key("peer", &tag), RecvH::Raw(r));
                        }
                    }
                    Ok(Err(_)) => {
                        m.insert("res".into(), json!("err"));
                    }
                    Err(_) => {
                        m.insert("res".into(), json!("blocked"));
                    }
                }
            }
            w.log.emit("peer", "peer_open", m);
        }
        ("peer", "open_n") => {
            // background: open `n` streams of `kind`, each preamble ++ its stream id (8 bytes), finished
            let Some(c) = w.raw.clone() else { return };
            let n = u(step, "n", 1);
            let kind = s(step, "kind").to_string();
            let sid = big(step, "sid", 0);
            let log = w.log.clone();
            let ms = u(step, "ms", 20000);
            // `split`: the first byte of every stream goes out alone, a datagram follows, then the rest
            let split = step.get("split").and_then(|v| v.as_bool()).unwrap_or(false);
            let h = tokio::spawn(async move {
                let mut okc = 0u64;
                let dl = Duration::from_millis(ms);
                for _ in 0..n {
                    if kind == "uni" {
                        let Ok(Ok(mut sx)) = timeout(dl, c.open_uni()).await else { break };
                        let id = u64::from(quinn::VarInt::from(sx.id()));
                        let mut b = gen::enc_varint(0x54);
                        b.extend(gen::enc_varint(sid));
                        b.extend_from_slice(&id.to_be_bytes());
                        if split {
                            let _ = sx.write_all(&b[..1]).await;
                            tokio::time::sleep(Duration::from_millis(3)).await;
                            let mut d = gen::enc_varint(sid / 4);
                            d.push(0xdd);
                            let _ = c.send_datagram(d.into());
                            tokio::time::sleep(Duration::from_millis(3)).await;
                            b.drain(..1);
                        }
                        let _ = sx.write_all(&b).await;
                        let _ = sx.finish();
                        log.emit("peer", "opened", fields! {"kind" => "uni", "id" => v62(id)});
                        okc += 1;
                        // keep the stream object alive until the data has been taken
                        tokio::spawn(async move { let _ = sx.stopped().await; });
                    } else {
                        let Ok(Ok((mut sx, r))) = timeout(dl, c.open_bi()).await else { break };
                        let id = u64::from(quinn::VarInt::from(sx.id()));
                        let mut b = gen::enc_varint(0x41);
                        b.extend(gen::enc_varint(sid));
                        b.extend_from_slice(&id.to_be_bytes());
                        if split {
                            let _ = sx.write_all(&b[..1]).await;
                            tokio::time::sleep(Duration::from_millis(3)).await;
                            let mut d = gen::enc_varint(sid / 4);
                            d.push(0xdd);
                            let _ = c.send_datagram(d.into());
                            tokio::time::sleep(Duration::from_millis(3)).await;
                            b.drain(..1);
                        }
                        let _ = sx.write_all(&b).await;
                        let _ = sx.finish();
                        log.emit("peer", "opened", fields! {"kind" => "bi", "id" => v62(id)});
                        okc += 1;
                        tokio::spawn(async move { let _ = sx.stopped().await; drop(r); });
                    }
                }
                log.emit("peer", "op_done", fields! {"op" => "open_n", "res" => "done", "opened" => okc});
            });
            w.tasks.insert(key("peer", &tag), h);
        }
        ("peer", "wait_handle") => {
            let k = key("peer", &tag);
            let deadline = tokio::time::Instant::now() + Duration::from_millis(u(step, "ms", 3000));
            let mut ok = false;
            while tokio::time::Instant::now() < deadline {
                if w.streams.lock().await.send.contains_key(&k) {
                    ok = true;
                    break;
                }
                tokio::time::sleep(Duration::from_millis(5)).await;
            }
            w.log.emit("peer", "handle_ready", fields! {"tag" => tag, "ok" => ok});
        }
        ("peer", "write") => {
            let data = payload(step);
            let k = key("peer", &tag);
            let mut g = w.streams.lock().await;
            let mut m = fields! {"tag" => tag.clone(), "len" => data.len()};
            match g.send.get_mut(&k) {
                Some(SendH::Raw(sx)) => {
                    let r = timeout(Duration::from_millis(u(step, "ms", 5000)), sx.write_all(&data)).await;
                    m.insert(
                        "res".into(),
                        match r {
                            Ok(Ok(())) => json!("ok"),
                            Ok(Err(quinn::WriteError::Stopped(c))) => {
                                json!({"k": "Stopped", "code": v62(c.into_inner())})
                            }
                            Ok(Err(_)) => json!("err"),
                            Err(_) => json!("blocked"),
                        },
                    );
                }
                _ => {
                    m.insert("res".into(), json!("nohandle"));
                }
            }
            if data.len() <= 2048 {
                m.insert("bytes".into(), jbytes(&data));
            }
            w.log.emit("peer", "peer_write", m);
        }
        ("peer", "fin") | ("peer", "reset") => {
            let k = key("peer", &tag);
            let mut g = w.streams.lock().await;
            let mut m = fields! {"tag" => tag.clone(), "a" => a.clone()};
            if let Some(SendH::Raw(sx)) = g.send.get_mut(&k) {
                let r = if a == "fin" {
                    sx.finish().is_ok()
                } else {
                    let code = big(step, "code", 0);
                    m.insert("code".into(), v62(code));
                    sx.reset(quinn::VarInt::from_u64(code).unwrap()).is_ok()
                };
                m.insert("res".into(), json!(r));
            } else {
                m.insert("res".into(), json!("nohandle"));
            }
            w.log.emit("peer", "peer_end", m);
        }
        ("peer", "stop") => {
            let k = key("peer", &tag);
            let mut g = w.streams.lock().await;
            let code = big(step, "code", 0);
            let mut m = fields! {"tag" => tag.clone(), "code" => v62(code)};
            if let Some(RecvH::Raw(r)) = g.recv.get_mut(&k) {
                m.insert("res".into(), json!(r.stop(quinn::VarInt::from_u64(code).unwrap()).is_ok()));
            } else {
                m.insert("res".into(), json!("nohandle"));
            }
            w.log.emit("peer", "peer_stop", m);
        }
        ("peer", "dgram") => {
            let Some(c) = w.raw.clone() else { return };
            let data = payload(step);
            let r = c.send_datagram(data.clone().into());
            let mut m = fields! {"res" => match r {
                Ok(()) => "ok",
                Err(quinn::SendDatagramError::TooLarge) => "toolarge",
                Err(quinn::SendDatagramError::UnsupportedByPeer) => "unsupported",
                Err(_) => "err",
            }};
            data_fields(&mut m, &data);
            w.log.emit("peer", "peer_dgram", m);
        }
        ("peer", "max_dgram") => {
            let Some(c) = w.raw.clone() else { return };
            w.log.emit("peer", "peer_max_dgram", fields! {"max" => opt_num(c.max_datagram_size())});
        }
        ("peer", "close") => {
            let Some(c) = w.raw.clone() else { return };
            let code = big(step, "code", 0);
            let reason = byte_arr(step, "reason");
            c.close(quinn::VarInt::from_u64(code).unwrap(), &reason);
            w.log.emit(
                "peer",
                "peer_close",
                fields! {"code" => v62(code), "reason" => jbytes(&reason)},
            );
        }
        ("peer", "stopped") | ("peer", "read") => {
            let mut st = step.clone();
            st["op"] = json!(a);
            stream_op(w.log.clone(), "peer".into(), w.streams.clone(), st).await;
        }
        // ------------------------------------------------ wtransport sides
        (_, "spawn") => {
            let op = s(step, "op").to_string();
            let log = w.log.clone();
            let streams = w.streams.clone();
            let st = step.clone();
            let who2 = who.clone();
            w.log.emit(&who, "op_start", fields! {"op" => op.clone(), "tag" => tag.clone()});
            let h = if matches!(op.as_str(), "read" | "write" | "finish" | "stopped" | "bistream") {
                tokio::spawn(stream_op(log, who2, streams, st))
            } else {
                let Some(c) = conn_of(w, &who).cloned() else {
                    w.log.emit(&who, "op_done", fields! {"op" => op, "tag" => tag, "res" => "noconn"});
                    return;
                };
                tokio::spawn(conn_op(log, who2, c, streams, st))
            };
            w.tasks.insert(key(&who, &tag), h);
        }
        (_, "await") => {
            let k = key(&who, &tag);
            if let Some(h) = w.tasks.remove(&k) {
                let ms = u(step, "ms", 6000);
                match timeout(Duration::from_millis(ms), h).await {
                    Ok(Ok(())) => {}
                    Ok(Err(e)) => w.log.emit(
                        &who,
                        "op_done",
                        fields! {"tag" => tag, "res" => "panic", "text" => e.to_string()},
                    ),
                    Err(_) => w.log.emit(&who, "op_done", fields! {"tag" => tag, "res" => "hang"}),
                }
            }
        }
        (_, "cancel") => {
            let k = key(&who, &tag);
            if let Some(h) = w.tasks.remove(&k) {
                h.abort();
                let _ = h.await;
                w.log.emit(&who, "op_cancelled", fields! {"tag" => tag});
            }
        }
        (_, "accept_uni") | (_, "accept_bi") | (_, "recv_dgram") | (_, "closed") | (_, "open_uni")
        | (_, "open_bi") | (_, "accept_n_uni") | (_, "accept_n_bi") | (_, "open_n_uni") | (_, "open_n_bi") => {
            let Some(c) = conn_of(w, &who).cloned() else {
                w.log.emit(&who, "op_done", fields! {"op" => a, "tag" => tag, "res" => "noconn"});
                return;
            };
            let mut st = step.clone();
            st["op"] = json!(a);
            conn_op(w.log.clone(), who.clone(), c, w.streams.clone(), st).await;
        }
        (_, "read") | (_, "write") | (_, "finish") | (_, "stopped") | (_, "bistream") => {
            let mut st = step.clone();
            st["op"] = json!(a);
            stream_op(w.log.clone(), who.clone(), w.streams.clone(), st).await;
        }
        (_, "reset") => {
            let k = key(&who, &tag);
            let code = big(step, "code", 0);
            let mut g = w.streams.lock().await;
            let mut m = fields! {"op" => "reset", "tag" => tag.clone(), "code" => v62(code)};
            if let Some(SendH::App(sx)) = g.send.get_mut(&k) {
                let r = sx.reset(VarInt::try_from_u64(code).unwrap());
                m.insert("res".into(), json!(if r.is_ok() { "ok" } else { "closed" }));
            } else {
                m.insert("res".into(), json!("nohandle"));
            }
            w.log.emit(&who, "op_done", m);
        }
        (_, "stop") => {
            let k = key(&who, &tag);
            let code = big(step, "code", 0);
            let h = w.streams.lock().await.recv.remove(&k);
            let mut m = fields! {"op" => "stop", "tag" => tag.clone(), "code" => v62(code)};
            if let Some(RecvH::App(r)) = h {
                r.stop(VarInt::try_from_u64(code).unwrap());
                m.insert("res".into(), json!("ok"));
            } else {
                m.insert("res".into(), json!("nohandle"));
            }
            w.log.emit(&who, "op_done", m);
        }
        (_, "settle_stopped") => {
            // barrier, not an operation under judgement: wait until the sending side has learnt
            // of a stop (or the stream ended otherwise), so that the next step finds a settled state
            let k = key(&who, &tag);
            let h = w.streams.lock().await.send.remove(&k);
            let mut settled = false;
            if let Some(mut sx) = h {
                if let SendH::App(x) = &mut sx {
                    settled = timeout(Duration::from_millis(u(step, "ms", 3000)), x.stopped()).await.is_ok();
                }
                w.streams.lock().await.send.insert(k, sx);
            }
            w.log.emit(&who, "barrier", fields! {"tag" => tag, "settled" => settled});
        }
        (_, "drop_stream") => {
            let k = key(&who, &tag);
            let mut g = w.streams.lock().await;
            let a = g.send.remove(&k).is_some();
            let b = g.recv.remove(&k).is_some();
            w.log.emit(&who, "op_done", fields! {"op" => "drop_stream", "tag" => tag, "res" => (a || b)});
        }
        (_, "send_dgram") => {
            let Some(c) = conn_of(w, &who) else { return };
            // `rel`: length chosen relative to the maximum measured right now (an input choice)
            let mut st2 = step.clone();
            if let Some(rel) = step.get("rel").and_then(|v| v.as_i64()) {
                let cur = std::panic::catch_unwind(std::panic::AssertUnwindSafe(|| c.max_datagram_size()))
                    .ok()
                    .flatten();
                match cur {
                    Some(mx) if mx as i64 + rel >= 0 => st2["len"] = json!(mx as i64 + rel),
                    _ => {
                        w.log.emit(&who, "skipped", fields! {"op" => "send_dgram", "rel" => rel});
                        return;
                    }
                }
            }
            let step = &st2;
            let data = payload(step);
            let before = std::panic::catch_unwind(std::panic::AssertUnwindSafe(|| c.max_datagram_size()));
            let r = c.send_datagram(&data);
            let after = std::panic::catch_unwind(std::panic::AssertUnwindSafe(|| c.max_datagram_size()));
            let mut m = fields! {"op" => "send_dgram", "res" => match r {
                Ok(()) => "ok",
                Err(SendDatagramError::TooLarge) => "toolarge",
                Err(SendDatagramError::UnsupportedByPeer) => "unsupported",
                Err(SendDatagramError::NotConnected) => "notconn",
            }};
            m.insert("max_before".into(), match before { Ok(x) => opt_num(x), Err(_) => json!(-2) });
            m.insert("max_after".into(), match after { Ok(x) => opt_num(x), Err(_) => json!(-2) });
            m.insert("salt".into(), json!(u(step, "salt", 0)));
            data_fields(&mut m, &data);
            w.log.emit(&who, "op_done", m);
        }
        (_, "max_dgram") => {
            let Some(c) = conn_of(w, &who) else { return };
            let r = std::panic::catch_unwind(std::panic::AssertUnwindSafe(|| c.max_datagram_size()));
            let quic = c.quic_connection().max_datagram_size();
            let mut m = fields! {"op" => "max_dgram", "quic_max" => opt_num(quic), "sid" => v62(c.session_id().into_u64())};
            match r {
                Ok(x) => {
                    m.insert("res".into(), json!("ok"));
                    m.insert("max".into(), opt_num(x));
                }
                Err(_) => {
                    m.insert("res".into(), json!("panic"));
                }
            }
            w.log.emit(&who, "op_done", m);
        }
        (_, "close") => {
            let Some(c) = conn_of(w, &who) else { return };
            let code = big(step, "code", 0);
            let reason = byte_arr(step, "reason");
            c.close(VarInt::try_from_u64(code).unwrap(), &reason);
            w.log.emit(
                &who,
                "op_done",
                fields! {"op" => "close", "code" => v62(code), "reason" => jbytes(&reason), "res" => "ok"},
            );
        }
        (_, "close_endpoint") => {
            // Endpoint::close on the endpoint under test: closes every connection of it with this code / reason
            let code = big(step, "code", 0);
            let reason = byte_arr(step, "reason");
            let mut done = false;
            for k in &w.keep {
                if let Some(ep) = k.downcast_ref::<Endpoint<endpoint_side::Server>>() {
                    if s(&w.cfg, "_role") != "client" {
                        ep.close(VarInt::try_from_u64(code).unwrap(), &reason);
                        done = true;
                    }
                } else if let Some(ep) = k.downcast_ref::<Endpoint<endpoint_side::Client>>() {
                    if s(&w.cfg, "_role") == "client" {
                        ep.close(VarInt::try_from_u64(code).unwrap(), &reason);
                        done = true;
                    }
                }
            }
            w.log.emit(
                &who,
                "op_done",
                fields! {"op" => "close", "via" => "endpoint", "code" => v62(code), "reason" => jbytes(&reason),
                "res" => if done { "ok" } else { "noendpoint" }},
            );
        }
        (_, "clone_conn") => {
            if let Some(c) = conn_of(w, &who).cloned() {
                w.keep.push(Box::new(c));
            }
        }
        (_, "drop_conn") => {
            // drops the primary handle (clones made by spawned ops die with their tasks)
            if who == "app2" {
                w.app2 = None;
            } else {
                w.app = None;
            }
            w.keep.retain(|k| !k.is::<Connection>());
            w.log.emit(&who, "op_done", fields! {"op" => "drop_conn", "res" => "ok"});
        }
        (_, "adopt") => {
            // manual scenarios: fetch the connection the background accept/connect produced
            let ms = u(step, "ms", 5000);
            let deadline = tokio::time::Instant::now() + Duration::from_millis(ms);
            loop {
                let mut got = None;
                for k in &w.keep {
                    if let Some(h) = k.downcast_ref::<Arc<Mutex<Option<Connection>>>>() {
                        got = h.lock().unwrap().clone();
                    }
                }
                if got.is_some() {
                    w.app = got;
                    break;
                }
                if tokio::time::Instant::now() >= deadline {
                    break;
                }
                tokio::time::sleep(Duration::from_millis(10)).await;
            }
            w.log.emit(&who, "adopted", fields! {"ok" => w.app.is_some()});
        }
        _ => {
            w.log.emit(&who, "badstep", fields! {"a" => a});
        }
    }
}

pub async fn run_scenario(log: Arc<Log>, scn: &Value) {
    let name = s(scn, "scn").to_string();
    let log = log.for_scn(&name);
    let mut hdr = fields! {"role" => s(scn, "role"), "peer" => s(scn, "peer")};
    if let Some(m) = scn.get("meta") {
        hdr.insert("meta".into(), m.clone());
    }
    log.emit("harness", "reset", hdr);
    let mut w = World {
        log: log.clone(),
        cfg: json!({}),
        app: None,
        app2: None,
        raw: None,
        streams: Arc::new(tokio::sync::Mutex::new(Streams::default())),
        tasks: HashMap::new(),
        bg: Vec::new(),
        keep: Vec::new(),
        cut: Arc::new(std::sync::atomic::AtomicBool::new(false)),
    };
    setup(&mut w, scn).await;
    log.emit(
        "harness",
        "setup_done",
        fields! {"app" => w.app.is_some(), "app2" => w.app2.is_some(), "raw" => w.raw.is_some(),
        "app_sid" => w.app.as_ref().map(|c| v62(c.session_id().into_u64())).unwrap_or(json!([-1, -1]))},
    );
    if let Some(steps) = scn.get("steps").and_then(|v| v.as_array()) {
        for st in steps {
            run_step(&mut w, st).await;
        }
    }
    // settle: let recorders flush, then tear everything down
    tokio::time::sleep(Duration::from_millis(u(scn, "settle_ms", 60))).await;
    for (_, h) in w.tasks.drain() {
        h.abort();
    }
    if let Some(c) = &w.raw {
        c.close(quinn::VarInt::from_u32(0), b"end-of-scenario");
    }
    if let Some(c) = &w.app {
        c.close(VarInt::from_u32(0), b"end-of-scenario");
    }
    if let Some(c) = &w.app2 {
        c.close(VarInt::from_u32(0), b"end-of-scenario");
    }
    tokio::time::sleep(Duration::from_millis(20)).await;
    for h in w.bg.drain(..) {
        h.abort();
    }
    log.emit("harness", "end", Map::new());
}

/// Runs every scenario of `path` (ndjson), `par` at a time. Events carry the scenario
/// name and a global sequence number; the orchestrator regroups them per scenario.
/// Timing-sensitive families are run with `par` = 1.
pub fn run_file(path: &str, out: &str, threads: usize, par: usize) -> u64 {
    let text = std::fs::read_to_string(path).expect("read scenarios");
    let log = Log::create(out);
    let rt = if threads <= 1 {
        tokio::runtime::Builder::new_current_thread()
            .enable_all()
            .build()
            .unwrap()
    } else {
        tokio::runtime::Builder::new_multi_thread()
            .worker_threads(threads)
            .enable_all()
            .build()
            .unwrap()
    };
    rt.block_on(async {
        let sem = Arc::new(tokio::sync::Semaphore::new(par.max(1)));
        let port_lock = Arc::new(tokio::sync::Mutex::new(()));
        let mut handles = Vec::new();
        for line in text.lines() {
            let line = line.trim();
            if line.is_empty() {
                continue;
            }
            let scn: Value = serde_json::from_str(line).expect("scenario json");
            let permit = sem.clone().acquire_owned().await.unwrap();
            let log = log.clone();
            let port_lock = port_lock.clone();
            handles.push(tokio::spawn(async move {
                // scenarios that bind a fixed port run one at a time
                let fixed = scn.get("cfg").map(|c| u(c, "port", 0) != 0).unwrap_or(false);
                let _guard = if fixed { Some(port_lock.lock_owned().await) } else { None };
                let name = s(&scn, "scn").to_string();
                let l2 = log.clone();
                let scn2 = scn.clone();
                // a panic inside a scenario is data, not a harness failure
                let h = tokio::spawn(async move { run_scenario(l2, &scn2).await });
                if let Err(e) = h.await {
                    let l = log.for_scn(&name);
                    l.emit("harness", "scenario_panic", fields! {"text" => e.to_string()});
                    l.emit("harness", "end", Map::new());
                }
                drop(permit);
            }));
        }
        for h in handles {
            let _ = h.await;
        }
    });
    log.flush();
    log.lines.load(Ordering::Relaxed)
}

// ---------------------------------------------------------------- C20 measurements

/// Establishes the scenario's session, then waits for the connection to end.
/// Returns (milliseconds until it ended or `wait_ms`, how it ended).
pub async fn measure_idle(scn: &Value, wait_ms: u64) -> (u64, String) {
    let log = Log::create("/dev/null");
    let mut w = World {
        log: log.for_scn("idle"),
        cfg: json!({}),
        app: None,
        app2: None,
        raw: None,
        streams: Arc::new(tokio::sync::Mutex::new(Streams::default())),
        tasks: HashMap::new(),
        bg: Vec::new(),
        keep: Vec::new(),
        cut: Arc::new(std::sync::atomic::AtomicBool::new(false)),
    };
    setup(&mut w, scn).await;
    let Some(c) = w.app.clone() else { return (0, "nosession".into()) };
    let t0 = std::time::Instant::now();
    let r = timeout(Duration::from_millis(wait_ms), c.closed()).await;
    let el = t0.elapsed().as_millis() as u64;
    let how = match r {
        Ok(ConnectionError::TimedOut) => "TimedOut".to_string(),
        Ok(e) => format!("{e:?}").chars().take(40).collect(),
        Err(_) => "alive".to_string(),
    };
    for h in w.bg.drain(..) {
        h.abort();
    }
    (el, how)
}

async fn raw_session(addr: SocketAddr, cep: &quinn::Endpoint) -> Option<(quinn::Connection, quinn::SendStream, quinn::SendStream)> {
    let conn = cep.connect_with(raw_client_config(&json!({})), addr, "localhost").ok()?.await.ok()?;
    let mut ctrl = conn.open_uni().await.ok()?;
    let mut b = vec![0x00];
    b.extend(gen::frame(4, &default_settings_payload()));
    ctrl.write_all(&b).await.ok()?;
    let (mut rs, mut rr) = conn.open_bi().await.ok()?;
    rs.write_all(&gen::frame(1, &default_request_payload())).await.ok()?;
    // wait for the response HEADERS
    timeout(Duration::from_secs(5), raw_read_frame(&mut rr)).await.ok()??;
    tokio::spawn(async move {
        let mut buf = [0u8; 64];
        while let Ok(Some(_)) = rr.read(&mut buf).await {}
    });
    Some((conn, ctrl, rs))
}

/// A raw client moves to a new UDP socket mid-connection; is the session still usable?
pub async fn measure_migration(allow: bool) -> bool {
    let id = Identity::self_signed(["localhost"]).expect("id");
    let cfg = ServerConfig::builder()
        .with_bind_address("127.0.0.1:0".parse().unwrap())
        .with_identity(id)
        .allow_migration(allow)
        .build();
    let Ok(ep) = Endpoint::server(cfg) else { return false };
    let addr: SocketAddr = format!("127.0.0.1:{}", ep.local_addr().unwrap().port()).parse().unwrap();
    let srv = tokio::spawn(async move {
        let inc = ep.accept().await;
        let req = inc.await.ok()?;
        let c = req.accept().await.ok()?;
        // first stream before the move, second one after it
        let a = timeout(Duration::from_secs(3), c.accept_uni()).await.ok()?.is_ok();
        let b = matches!(timeout(Duration::from_millis(2500), c.accept_uni()).await, Ok(Ok(_)));
        drop(ep);
        Some(a && b)
    });
    let Ok(cep) = quinn::Endpoint::client("127.0.0.1:0".parse().unwrap()) else { return false };
    let Some((conn, _ctrl, _rs)) = raw_session(addr, &cep).await else { return false };
    let open = |c: quinn::Connection, tag: u8| async move {
        if let Ok(mut s) = c.open_uni().await {
            let mut b = gen::enc_varint(0x54);
            b.extend(gen::enc_varint(0));
            b.push(tag);
            let _ = s.write_all(&b).await;
            let _ = s.finish();
            tokio::spawn(async move { let _ = s.stopped().await; });
        }
    };
    open(conn.clone(), 1).await;
    tokio::time::sleep(Duration::from_millis(100)).await;
    let sock = std::net::UdpSocket::bind("127.0.0.1:0").expect("udp");
    let _ = cep.rebind(sock);
    open(conn.clone(), 2).await;
    let r = srv.await.ok().flatten().unwrap_or(false);
    conn.close(quinn::VarInt::from_u32(0), b"done");
    r
}

fn peer_cert_hash(c: &quinn::Connection) -> Vec<u8> {
    use sha2::Digest;
    c.peer_identity()
        .and_then(|a| a.downcast::<Vec<rustls_pki_types::CertificateDer<'static>>>().ok())
        .and_then(|v| v.first().map(|d| sha2::Sha256::digest(d.as_ref()).to_vec()))
        .unwrap_or_default()
}

/// reload_config(rebind = false): established connections keep working and keep their
/// certificate, new connections see the new one.
pub async fn measure_reload() -> Vec<(String, Value)> {
    let mut out = Vec::new();
    let id_a = Identity::self_signed(["localhost"]).expect("id");
    let id_b = Identity::self_signed(["localhost", "second.example"]).expect("id");
    let hash_a = id_a.certificate_chain().as_slice()[0].hash();
    let hash_b = id_b.certificate_chain().as_slice()[0].hash();
    let cfg_a = ServerConfig::builder().with_bind_address("127.0.0.1:0".parse().unwrap()).with_identity(id_a).build();
    let Ok(ep) = Endpoint::server(cfg_a) else { return out };
    let ep = Arc::new(ep);
    let addr: SocketAddr = format!("127.0.0.1:{}", ep.local_addr().unwrap().port()).parse().unwrap();
    let (tx, mut rx) = tokio::sync::mpsc::channel::<Connection>(4);
    let ep2 = ep.clone();
    let acc = tokio::spawn(async move {
        loop {
            let inc = ep2.accept().await;
            let tx = tx.clone();
            tokio::spawn(async move {
                if let Ok(req) = inc.await {
                    if let Ok(c) = req.accept().await {
                        let _ = tx.send(c).await;
                    }
                }
            });
        }
    });
    let cep = quinn::Endpoint::client("127.0.0.1:0".parse().unwrap()).expect("raw ep");
    let Some((c1, _k1, _r1)) = raw_session(addr, &cep).await else { return out };
    let s1 = rx.recv().await;
    out.push(("first_sees_a".into(), json!(peer_cert_hash(&c1) == hash_a.as_ref().to_vec())));
    let cfg_b = ServerConfig::builder().with_bind_address("127.0.0.1:0".parse().unwrap()).with_identity(id_b).build();
    let reloaded = ep.reload_config(cfg_b, false).is_ok();
    out.push(("reload_ok".into(), json!(reloaded)));
    let Some((c2, _k2, _r2)) = raw_session(addr, &cep).await else {
        out.push(("second_connected".into(), json!(false)));
        return out;
    };
    let _s2 = rx.recv().await;
    out.push(("second_connected".into(), json!(true)));
    out.push(("second_sees_b".into(), json!(peer_cert_hash(&c2) == hash_b.as_ref().to_vec())));
    out.push(("first_still_a".into(), json!(peer_cert_hash(&c1) == hash_a.as_ref().to_vec())));
    // the established session is undisturbed: a new stream on it is still accepted
    let mut alive = false;
    if let (Some(s1), Ok(mut st)) = (s1, c1.open_uni().await) {
        let mut b = gen::enc_varint(0x54);
        b.extend(gen::enc_varint(0));
        b.push(9);
        let _ = st.write_all(&b).await;
        alive = matches!(timeout(Duration::from_secs(3), s1.accept_uni()).await, Ok(Ok(_)));
    }
    out.push(("old_alive".into(), json!(alive)));
    // a reload that fails (rebinding to an address that is taken) reports the failure and changes nothing:
    // new connections still get the configuration in force before it
    let id_c = Identity::self_signed(["localhost", "third.example"]).expect("id");
    let blocker = std::net::UdpSocket::bind("127.0.0.1:0").expect("blocker");
    let taken = blocker.local_addr().unwrap();
    let cfg_c = ServerConfig::builder().with_bind_address(taken).with_identity(id_c).build();
    let failed = ep.reload_config(cfg_c, true).is_err();
    out.push(("rebind_taken_fails".into(), json!(failed)));
    match raw_session(addr, &cep).await {
        Some((c3, _k3, _r3)) => {
            let _s3 = rx.recv().await;
            out.push(("after_failed_connected".into(), json!(true)));
            out.push(("after_failed_sees_b".into(), json!(peer_cert_hash(&c3) == hash_b.as_ref().to_vec())));
        }
        None => {
            out.push(("after_failed_connected".into(), json!(false)));
            out.push(("after_failed_sees_b".into(), json!(false)));
        }
    }
    drop(blocker);
    acc.abort();
    out
}

/// C10: one client endpoint pinning a short-lived certificate connects while it is valid, then
/// again (same endpoint, so whatever the TLS stack cached is still there) after it has expired;
/// a fresh endpoint with the same pin is the control. Returns what each attempt reported.
pub async fn measure_reconnect_after_expiry(valid_s: i64) -> Vec<(String, Value)> {
    let mut out = Vec::new();
    let now = time::OffsetDateTime::now_utc();
    let not_after = now + time::Duration::seconds(valid_s);
    let id = Identity::self_signed_builder()
        .subject_alt_names(["localhost", "127.0.0.1"])
        .validity_period(now - time::Duration::hours(1), not_after)
        .build()
        .expect("identity");
    let hash = id.certificate_chain().as_slice()[0].hash();
    let cfg = ServerConfig::builder().with_bind_address("127.0.0.1:0".parse().unwrap()).with_identity(id).build();
    let Ok(ep) = Endpoint::server(cfg) else { return out };
    let port = ep.local_addr().unwrap().port();
    let acc = tokio::spawn(async move {
        loop {
            let inc = ep.accept().await;
            tokio::spawn(async move {
                if let Ok(req) = inc.await {
                    if let Ok(c) = req.accept().await {
                        c.closed().await;
                    }
                }
            });
        }
    });
    let mk = |h: wtransport::tls::Sha256Digest| {
        Endpoint::client(
            ClientConfig::builder()
                .with_bind_address("127.0.0.1:0".parse().unwrap())
                .with_server_certificate_hashes([h])
                .build(),
        )
        .expect("client ep")
    };
    let url = format!("https://127.0.0.1:{port}/");
    let describe = |r: Result<Result<Connection, ConnectingError>, tokio::time::error::Elapsed>| match r {
        Ok(Ok(c)) => {
            c.close(VarInt::from_u32(0), b"");
            json!("ok")
        }
        Ok(Err(_)) => json!("err"),
        Err(_) => json!("hang"),
    };
    let same = mk(hash.clone());
    out.push(("valid_s".into(), json!(valid_s)));
    out.push(("first_while_valid".into(), describe(timeout(Duration::from_secs(5), same.connect(&url)).await)));
    // a second connection while still valid (this is the one that may be resumed later)
    out.push(("second_while_valid".into(), describe(timeout(Duration::from_secs(5), same.connect(&url)).await)));
    let left = not_after - time::OffsetDateTime::now_utc();
    tokio::time::sleep(Duration::from_millis((left.whole_milliseconds().max(0) as u64) + 1500)).await;
    out.push(("same_endpoint_after_expiry".into(), describe(timeout(Duration::from_secs(5), same.connect(&url)).await)));
    let fresh = mk(hash);
    out.push(("fresh_endpoint_after_expiry".into(), describe(timeout(Duration::from_secs(5), fresh.connect(&url)).await)));
    acc.abort();
    out
}

/// C10: the default trust policy is the platform's root store; a certificate that merely appears in a
/// file named by SSL_CERT_FILE (while the client configuration is built) is not a trusted root.
/// Must run while no other thread builds configurations (the variable is process-wide).
pub async fn measure_native_with_env(scratch: &str) -> Vec<(String, Value)> {
    let mut out = Vec::new();
    let id = Identity::self_signed(["localhost", "127.0.0.1"]).expect("identity");
    let pem = format!("{scratch}/env_root.pem");
    if id.certificate_chain().store_pemfile(&pem).await.is_err() {
        return out;
    }
    let cfg = ServerConfig::builder().with_bind_address("127.0.0.1:0".parse().unwrap()).with_identity(id).build();
    let Ok(ep) = Endpoint::server(cfg) else { return out };
    let port = ep.local_addr().unwrap().port();
    let acc = tokio::spawn(async move {
        loop {
            let inc = ep.accept().await;
            tokio::spawn(async move {
                if let Ok(req) = inc.await {
                    if let Ok(c) = req.accept().await {
                        c.closed().await;
                    }
                }
            });
        }
    });
    let url = format!("https://127.0.0.1:{port}/");
    for (name, set) in [("plain", false), ("with_ssl_cert_file", true)] {
        let old = std::env::var_os("SSL_CERT_FILE");
        if set {
            std::env::set_var("SSL_CERT_FILE", &pem);
        }
        let client = Endpoint::client(
            ClientConfig::builder().with_bind_address("127.0.0.1:0".parse().unwrap()).with_native_certs().build(),
        );
        match old {
            Some(v) => std::env::set_var("SSL_CERT_FILE", v),
            None => std::env::remove_var("SSL_CERT_FILE"),
        }
        let r = match client {
            Ok(c) => match timeout(Duration::from_secs(5), c.connect(&url)).await {
                Ok(Ok(conn)) => {
                    conn.close(VarInt::from_u32(0), b"");
                    "ok"
                }
                Ok(Err(_)) => "err",
                Err(_) => "hang",
            },
            Err(_) => "noendpoint",
        };
        out.push((name.into(), json!(r)));
    }
    acc.abort();
    out
}

/// C20: the configured DnsResolver decides where a domain URL connects (address AND port); the URL's
/// port is only part of the authority the server sees.
pub async fn measure_resolver() -> Vec<(String, Value)> {
    let mut out = Vec::new();
    let id = Identity::self_signed(["localhost", "svc.test"]).expect("identity");
    let cfg = ServerConfig::builder().with_bind_address("127.0.0.1:0".parse().unwrap()).with_identity(id).build();
    let Ok(ep) = Endpoint::server(cfg) else { return out };
    let addr: SocketAddr = format!("127.0.0.1:{}", ep.local_addr().unwrap().port()).parse().unwrap();
    let (tx, mut rx) = tokio::sync::mpsc::channel::<String>(4);
    let acc = tokio::spawn(async move {
        loop {
            let inc = ep.accept().await;
            let tx = tx.clone();
            tokio::spawn(async move {
                if let Ok(req) = inc.await {
                    let _ = tx.send(req.authority().to_string()).await;
                    if let Ok(c) = req.accept().await {
                        c.closed().await;
                    }
                }
            });
        }
    });
    for (name, url) in [("explicit_port", "https://svc.test:9/x"), ("default_port", "https://svc.test/")] {
        let client = Endpoint::client(
            ClientConfig::builder()
                .with_bind_address("127.0.0.1:0".parse().unwrap())
                .with_no_cert_validation()
                .dns_resolver(FixedDns(addr))
                .build(),
        )
        .expect("client");
        let ok = matches!(timeout(Duration::from_secs(4), client.connect(url)).await, Ok(Ok(_)));
        let seen = if ok { timeout(Duration::from_secs(2), rx.recv()).await.ok().flatten().unwrap_or_default() } else { String::new() };
        out.push((format!("{name}_connected"), json!(ok)));
        out.push((format!("{name}_authority"), jbytes(seen.as_bytes())));
    }
    acc.abort();
    out
}
