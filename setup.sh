#!/bin/sh
# Builds everything the checks need from files on disk only (offline).
set -e
cd "$(dirname "$0")"
export CARGO_NET_OFFLINE=true
mkdir -p work evidence replays
[ -f harness/Cargo.lock ] || cp /repo/Cargo.lock harness/Cargo.lock
python3 tools/gen_tables.py
for m in spec/CodecTrace.tla spec/WireMC.tla spec/TlsTrace.tla spec/DriverMC.tla spec/DriverTrace.tla spec/SelectLoopMC.tla spec/AsyncReadMC.tla spec/StreamLifeMC.tla spec/C01Trace.tla spec/C02Trace.tla spec/C03Trace.tla spec/C04Trace.tla spec/C05Trace.tla spec/C06Trace.tla spec/C07Trace.tla spec/C08Trace.tla spec/C09Trace.tla spec/C10Trace.tla spec/C12Trace.tla spec/C16Trace.tla; do
  (cd spec && java -cp /opt/veriftools/tla/tla2tools.jar:/opt/veriftools/tla/CommunityModules-deps.jar tla2sany.SANY "$(basename $m)" >/dev/null) || { echo "SANY failed on $m"; exit 1; }
done
F=""; [ -f /repo/wtransport/src/driver/verif.rs ] && F="--features mech"
(cd harness && cargo build --offline --quiet $F && cargo build --offline --quiet --release $F)
echo setup-ok
