#!/bin/sh
# Builds everything the checks need from files on disk only (offline).
set -e
cd "$(dirname "$0")"
export CARGO_NET_OFFLINE=true
mkdir -p work evidence replays
[ -f harness/Cargo.lock ] || cp /repo/Cargo.lock harness/Cargo.lock
python3 tools/gen_tables.py
for m in spec/CodecTrace.tla spec/WireMC.tla; do
  (cd spec && java -cp /opt/veriftools/tla/tla2tools.jar:/opt/veriftools/tla/CommunityModules-deps.jar tla2sany.SANY "$(basename $m)" >/dev/null) || { echo "SANY failed on $m"; exit 1; }
done
(cd harness && cargo build --offline --quiet && cargo build --offline --quiet --release)
echo setup-ok
