----------------------------- MODULE Typestate -----------------------------
(***************************************************************************)
(* Reference behaviour of the per-stream frame readers (the "typestates"):  *)
(* which frames a stream of a given role may carry, what an unknown or     *)
(* reserved frame means, and which HTTP/3 error a violation maps to.       *)
(*                                                                         *)
(* Roles                                                                   *)
(*   biremote  - a peer-initiated bidirectional stream (request stream, or  *)
(*               a WebTransport bidirectional stream before its signal)    *)
(*   bilocal   - a locally initiated bidirectional stream (response side)  *)
(*   uniremote - the peer's control stream                                  *)
(*   session   - the CONNECT stream of an established session              *)
(*                                                                         *)
(* RFC 9114: 7.2.1/7.2.2 DATA/HEADERS on the control stream and 7.2.4       *)
(* SETTINGS on a request stream are H3_FRAME_UNEXPECTED; 7.1 a frame cut   *)
(* short by the end of the stream is H3_FRAME_ERROR; 9 unknown frame types *)
(* are skipped whole; 7.2.8 reserved types carry no meaning.  WebTransport *)
(* draft: the 0x41 signal is only valid as the very first thing on a       *)
(* peer-initiated bidirectional stream; an invalid session id is           *)
(* H3_ID_ERROR.  A frame longer than the endpoint buffers is               *)
(* H3_EXCESSIVE_LOAD.                                                      *)
(***************************************************************************)
EXTENDS Naturals, Sequences, Wire

E_UNEXPECTED == 261
E_FRAME == 262
E_LOAD == 263
E_ID == 264
E_STREAM_CREATION == 259

(* verdict for a known frame kind: "ok", or the set of admissible codes    *)
(* seen = "none": nothing at all precedes the frame on the stream;         *)
(*        "skip": only reserved/unknown frames precede it; "frames"        *)
Validate(role, seen, kind) ==
  CASE role = "biremote" ->
         (CASE kind \in {"data", "headers", "grease"} -> [v |-> "ok"]
            [] kind = "settings" -> [v |-> "err", codes |-> {E_UNEXPECTED}]
            [] kind = "wt" -> IF seen = "none" THEN [v |-> "ok"]
                              ELSE IF seen = "skip" THEN [v |-> "either", codes |-> {E_FRAME, E_UNEXPECTED}]
                              ELSE [v |-> "err", codes |-> {E_FRAME, E_UNEXPECTED}])
    [] role \in {"bilocal", "session"} ->
         (CASE kind \in {"data", "headers", "grease"} -> [v |-> "ok"]
            [] kind = "settings" -> [v |-> "err", codes |-> {E_UNEXPECTED}]
            [] kind = "wt" -> [v |-> "err", codes |-> {E_UNEXPECTED, E_FRAME}])
    [] role = "uniremote" ->
         (CASE kind \in {"settings", "grease"} -> [v |-> "ok"]
            [] kind \in {"data", "headers"} -> [v |-> "err", codes |-> {E_UNEXPECTED}]
            [] kind = "wt" -> [v |-> "err", codes |-> {E_UNEXPECTED, E_FRAME}])

(* One read_frame call starting at index i: skip unknown frames, then       *)
(* classify.  Result:                                                      *)
(*  [k |-> "frame", f, next, seen']  a frame is yielded                      *)
(*  [k |-> "either", f, next, codes] yielded or refused (unconstrained)     *)
(*  [k |-> "err", codes]             refused                                *)
(*  [k |-> "more", at]               needs more input; at = index where the  *)
(*                                   unfinished frame starts                *)
(*  [k |-> "any"]                    outcome not constrained by the rules   *)
RECURSIVE ReadOne(_, _, _, _)
ReadOne(role, bs, i, seen) ==
  LET f == FrameAt(bs, i) IN
  IF f.k = "more" THEN [k |-> "more", at |-> i]
  ELSE IF f.kind = "unknown" THEN
    \* unknown type with a refused length: every path refuses the frame (nothing is skipped,
    \* because the payload was never consumed - continuing would read it as frames)
    IF f.k = "err" THEN [k |-> "err", codes |-> {E_LOAD}]
    ELSE ReadOne(role, bs, i + f.n, IF seen = "none" THEN "skip" ELSE seen)
  ELSE IF f.k = "err" THEN
    [k |-> "err", codes |-> IF f.e = "sid" THEN {E_ID} ELSE {E_LOAD}]
  ELSE LET v == Validate(role, seen, f.kind) IN
    IF v.v = "ok" THEN
      [k |-> "frame", f |-> f, next |-> i + f.n,
       seen |-> IF f.kind = "grease" /\ seen # "frames" THEN "skip" ELSE "frames"]
    ELSE IF v.v = "either" THEN [k |-> "either", f |-> f, next |-> i + f.n, codes |-> v.codes]
    ELSE [k |-> "err", codes |-> v.codes]
=============================================================================
