SPECIFICATION Spec
CONSTANTS
  Depth = 3
  Codes <- OneCode
INVARIANTS Inv Emit
CHECK_DEADLOCK FALSE
