------------------------------ MODULE C05Trace ------------------------------
(***************************************************************************)
(* C05: the peer's control-plane bytes are cut into pieces, with other      *)
(* connection events injected between the pieces.  Every scenario sends a  *)
(* VALID exchange, so the outcome must be that of the unsegmented run:     *)
(* the session comes up, stays usable (probes are accepted), no error is   *)
(* raised, and - when the exchange ends with a close capsule - waiting     *)
(* operations report exactly the capsule's code and reason.  That the      *)
(* exchange is valid is itself checked with the reference modules on the   *)
(* concatenation of the pieces.                                            *)
(***************************************************************************)
EXTENDS Integers, Sequences, FiniteSets, TLC, Hist, H3Rules, E2EBase

BytesOfTag(h, t) == CatBytes(h, SortedSeq({ i \in Idx(h) : IsEv(h[i], "peer", "peer_write") /\ h[i].tag = t /\ h[i].res = "ok" }))

Adopted(h) == \E i \in Idx(h) : IsEv(h[i], "app", "adopted") /\ h[i].ok
Probes(h) == { i \in Idx(h) : h[i].src = "app" /\ h[i].ev = "op_done" /\ Has(h[i], "op")
                 /\ h[i].op \in {"accept_uni", "accept_bi"} /\ Has(h[i], "tag") /\ h[i].tag \in {"probe1", "probe2"} }
SutClosed(h) == { i \in Idx(h) : IsEv(h[i], "peer", "peer_closed") /\ h[i].why.k # "LocallyClosed" }
WaitOps == {"accept_uni", "accept_bi", "recv_dgram"}
Waiters(h) == { i \in Idx(h) : h[i].src = "app" /\ h[i].ev = "op_done" /\ Has(h[i], "op")
                 /\ h[i].op \in WaitOps /\ Has(h[i], "tag")
                 /\ h[i].tag \in {"w1", "w2", "w3", "l0", "l1", "l2", "m0", "m1", "m2", "d0", "d1", "d2"} }
\* the last report of each kind of waiting operation
LastOf(h, op) == LET c == { i \in Waiters(h) : h[i].op = op } IN CHOOSE i \in c : \A j \in c : j <= i

\* the exchange the peer sent is a valid one (so that the expected outcome is "fine")
ValidExchange(h) ==
  LET m == Meta(h)
      ctrl == BytesOfTag(h, m.ctrl_tag)
      f == FrameAt(ctrl, 2) IN
  /\ Len(ctrl) >= 1 /\ ctrl[1] = 0
  /\ f.k = "ok" /\ f.kind = "settings"
  /\ SettingsParse(SubSeq(ctrl, f.pfrom, f.pfrom + f.plen - 1)).k = "ok"
  /\ CtrlFrom(ctrl, 2 + f.n, "open").k = "alive"

JudgeC05(h) ==
  LET m == Meta(h)
      sess == SessionOutcome(SubSeq(BytesOfTag(h, m.req_tag), m.sess_from + 1, Len(BytesOfTag(h, m.req_tag))), "open") IN
  /\ ValidExchange(h)
  /\ Adopted(h)                                  \* the session was established
  /\ Probes(h) # {} /\ \A i \in Probes(h) : h[i].res = "ok"
  /\ IF sess.k = "closed" THEN
       \* an injected stream / datagram of the live session may satisfy a waiter (res = "ok");
       \* every error must be the capsule's, and each kind of operation ends up reporting it
       /\ \A i \in Waiters(h) : h[i].res = "ok" \/ (h[i].res = "err" /\ IsAppClosed(h[i].err, sess.code, sess.reason))
       /\ \A op \in WaitOps : h[LastOf(h, op)].res = "err"
       /\ \A i \in SutClosed(h) : h[i].why.k = "ApplicationClosed" /\ h[i].why.code = <<0, 256>>
     ELSE sess.k = "alive" /\ SutClosed(h) = {}

Spec == Init /\ [][NextJ(JudgeC05)]_vars
=============================================================================
