------------------------------ MODULE CodecEnc ------------------------------
(***************************************************************************)
(* Judges for encoder events (C14), identifier algebra (C17) and admission *)
(* (C18).  Same conventions as CodecTrace.                                 *)
(***************************************************************************)
EXTENDS Integers, Sequences, FiniteSets, Wire, Qpack, Admission

HasF(e, f) == f \in DOMAIN e

Pat(i, salt) == (i * 31 + 7 + salt * 13) % 251        \* 0-based position
Pattern(len, salt) == [j \in 1..len |-> Pat(j - 1, salt)]

\* expected bytes given as header sequence + patterned payload
ExpAt(hdr, salt, k) == IF k <= Len(hdr) THEN hdr[k] ELSE Pat(k - Len(hdr) - 1, salt)

OutMatches(e, hdr, plen, salt) ==
  LET total == Len(hdr) + plen IN
  /\ e.blen = total
  /\ IF HasF(e, "bytes") THEN e.bytes = [k \in 1..total |-> ExpAt(hdr, salt, k)]
     ELSE /\ e.bhead = [k \in 1..24 |-> ExpAt(hdr, salt, k)]
          /\ e.btail = [k \in 1..8 |-> ExpAt(hdr, salt, total - 8 + k)]

Quiet(e) == ~e.panic

(* ------------------------------- varint -------------------------------- *)
JVarintEnc(e) ==
  IF e.api = "try_from" THEN e.res = "range"
  ELSE LET enc == VarintEnc(e.v) IN
    /\ IsV62(e.v)
    /\ CASE e.api = "vec" ->
              /\ e.res = "ok" /\ e.bytes = enc /\ e.blen = Len(enc)
              /\ e.size = Len(enc) /\ e.size = VarintSize(e.v)
              /\ e.parse_size = Len(enc)
              /\ e.rt = e.v /\ e.rt_used = Len(enc)
         [] e.api = "buf" ->
              IF e.cap < Len(enc) THEN e.res = "eob"
              ELSE e.res = "ok" /\ e.written = Len(enc) /\ e.bytes = enc
         [] e.api = "async" -> e.res = "ok" /\ e.bytes = enc

(* ------------------------------- frames -------------------------------- *)
FrameHdr(e) ==
  IF e.kind = "wt" THEN VarintEnc(V(65)) \o VarintEnc(e.sid)
  ELSE VarintEnc(IF e.kind = "grease" THEN e.type ELSE FrameTypeOf(e.kind)) \o VarintEnc(V(e.plen))

RtPayload(r, plen, salt) ==
  /\ r.plen = plen
  /\ IF HasF(r, "payload") THEN r.payload = Pattern(plen, salt)
     ELSE /\ r.phead = [k \in 1..8 |-> Pat(k - 1, salt)]
          /\ r.ptail = [k \in 1..8 |-> Pat(plen - 8 + k - 1, salt)]

JFrameEnc(e) ==
  LET hdr == FrameHdr(e)
      plen == IF e.kind = "wt" THEN 0 ELSE e.plen
      total == Len(hdr) + plen IN
  /\ (e.kind = "grease" => IsGrease(e.type))
  /\ CASE e.api = "vec" ->
            /\ e.res = "ok" /\ e.size = total /\ OutMatches(e, hdr, plen, e.salt)
            /\ HasF(e, "rta") /\ e.rta = e.rt      \* the asynchronous reader inverts the encoder too
            /\ IF plen <= MaxPayload
               THEN /\ e.rt.kind = e.kind /\ e.rt.used = total
                    /\ e.rt.sid = (IF e.kind = "wt" THEN e.sid ELSE V(0))
                    /\ e.rt.type = (IF e.kind = "wt" THEN V(65)
                                    ELSE IF e.kind = "grease" THEN e.type ELSE FrameTypeOf(e.kind))
                    /\ RtPayload(e.rt, plen, e.salt)
               ELSE e.rt.res = "err" /\ e.rt.e = "toobig"
       [] e.api = "tobuf" ->
            IF e.cap < total THEN e.res = "eob" /\ e.written = 0 /\ e.untouched
            ELSE e.res = "ok" /\ e.written = total /\ e.untouched /\ OutMatches(e, hdr, plen, e.salt)
       [] e.api = "async" -> e.res = "ok" /\ OutMatches(e, hdr, plen, e.salt)

(* --------------------------- stream headers ---------------------------- *)
JShdrEnc(e) ==
  LET enc == IF e.kind = "wt" THEN VarintEnc(V(84)) \o VarintEnc(e.sid) ELSE <<0>> IN
  CASE e.api = "vec" ->
         /\ e.res = "ok" /\ e.bytes = enc /\ e.size = Len(enc)
         /\ HasF(e, "rt") /\ e.rt.kind = e.kind /\ e.rt.sid = e.sid /\ e.rt.used = Len(enc)
         /\ HasF(e, "rta") /\ e.rta = e.rt
    [] e.api = "tobuf" ->
         IF e.cap < Len(enc) THEN e.res = "eob" /\ e.written = 0 /\ e.untouched
         ELSE e.res = "ok" /\ e.written = Len(enc) /\ e.bytes = enc /\ e.untouched
    [] e.api = "async" -> e.res = "ok" /\ e.bytes = enc

(* ------------------------------- SETTINGS ------------------------------ *)
BuilderId(name) ==
  CASE name = "qpack_max_table_capacity" -> SET_QPACK_CAP
    [] name = "qpack_blocked_streams" -> SET_QPACK_BLOCKED
    [] name = "enable_connect_protocol" -> SET_CONNECT
    [] name = "enable_webtransport" -> SET_WT
    [] name = "enable_h3_datagrams" -> SET_DATAGRAM
    [] name = "webtransport_max_sessions" -> SET_WT_MAX
BuilderVal(call) ==
  IF call[1] \in {"enable_connect_protocol", "enable_webtransport", "enable_h3_datagrams"}
  THEN V(1) ELSE call[2]

\* the map a sequence of builder calls denotes (last call per setting wins)
BuiltSet(calls) ==
  { <<BuilderId(calls[j][1]), BuilderVal(calls[j])>> : j \in
      { j \in 1..Len(calls) : \A h \in (j+1)..Len(calls) : calls[h][1] # calls[j][1] } }

PairSet(seq) == { <<seq[j][1], seq[j][2]>> : j \in 1..Len(seq) }

JSettingsEnc(e) ==
  LET want == BuiltSet(e.set) IN
  IF e.api = "ref" /\ e.cap < e.need THEN e.res = "eob"
  ELSE /\ e.res = "ok" /\ e.kind = "settings"
       /\ HasF(e, "bytes")
       /\ LET r == SettingsParse(e.bytes) IN
          /\ r.k = "ok"
          /\ Len(r.pairs) = Cardinality(want)
          /\ PairSet(r.pairs) = want
       /\ (e.api = "frame" => HasF(e, "rt") /\ PairSet(e.rt) = want /\ Len(e.rt) = Cardinality(want))

(* -------------------------------- QPACK -------------------------------- *)
JQpackEnc(e) ==
  LET d == SectionDecode(e.bytes) IN
  /\ e.res = "ok"
  /\ d.k = "ok"
  /\ SectionStatic(e.bytes)
  /\ HasF(e, "rt")
  /\ IF e.api = "encode" THEN
       \* the encoder keeps the caller's order
       /\ Len(d.lines) = Len(e.pairs)
       /\ \A j \in 1..Len(e.pairs) :
            d.lines[j].name = e.pairs[j][1] /\ d.lines[j].value = e.pairs[j][2]
       /\ PairSet(e.rt) = MapOf(d.lines)
     ELSE
       /\ e.kind = "headers"
       /\ PseudoFirst(d.lines)
       /\ Len(d.lines) = Len(e.pairs)
       /\ { <<d.lines[j].name, d.lines[j].value>> : j \in 1..Len(d.lines) } = PairSet(e.pairs)
       /\ PairSet(e.rt) = PairSet(e.pairs)

(* ------------------------------ datagrams ------------------------------ *)
JDgramEnc(e) ==
  LET q == VShr2(e.sid)
      hdr == VarintEnc(q)
      total == Len(hdr) + e.plen IN
  /\ e.q = q /\ VLe(q, QuarterMax)
  /\ e.size = total /\ e.hsize = Len(hdr)
  /\ IF e.cap < total THEN e.res = "eob" /\ e.untouched
     ELSE /\ e.res = "ok" /\ e.written = total /\ e.untouched
          /\ OutMatches(e, hdr, e.plen, e.salt)
          /\ e.rt_q = q /\ e.rt_plen = e.plen /\ e.rt_same

(* ----------------------------- identifiers ----------------------------- *)
\* RFC 9000 2.1: bit 0 = initiator (0 client, 1 server), bit 1 = direction (0 bidi, 1 uni)
JIds(e) ==
  LET low == VMod4(e.v) IN
  /\ IsV62(e.v)
  /\ e.u64 = e.v
  /\ e.bidi = (low \in {0, 1})
  /\ e.client = (low \in {0, 2})
  /\ e.local_s = (low \in {1, 3})
  /\ e.local_c = (low \in {0, 2})
  /\ e.sid_ok = (low = 0)
  /\ (e.sid_ok =>
        /\ e.sid = e.v /\ e.sstream = e.v
        /\ e.q = VShr2(e.v) /\ e.q_le_max /\ VLe(e.q, QuarterMax)
        /\ e.back = e.v /\ e.back_sid = e.v)

(* ------------------------------ admission ------------------------------ *)
JRequest(e) ==
  LET defects == RequestDefects(e.pairs) IN
  IF defects = {} THEN
    /\ e.res = "ok"
    /\ e.authority = Lookup(e.pairs, S_authority).val
    /\ e.path = Lookup(e.pairs, S_path).val
  ELSE e.res = "err" /\ e.e \in defects

StatusOutcome(e, s) ==
  LET v == StatusVerdict(s) IN
  /\ (e.res = "ok" => e.code \in 100..599 /\ e.success = IsSuccess(e.code))
  /\ CASE v.v = "ok" -> e.res = "ok" /\ e.code = v.n
       [] v.v = "err" -> e.res = "err"
       [] v.v = "either" -> e.res = "err" \/ (e.res = "ok" /\ e.code = v.n)

JResponse(e) ==
  LET st == Lookup(e.pairs, S_status) IN
  IF ~st.has THEN e.res = "err" /\ e.e = "missing_status"
  ELSE /\ StatusOutcome(e, st.val)
       /\ (e.res = "err" => e.e = "invalid_status")

JStatus(e) ==
  IF e.api = "str" THEN StatusOutcome(e, e.in)
  ELSE LET hi == e.v[1]  lo == e.v[2]
           inRange == CASE e.w = 8 -> (lo % 256) \in 100..599
                        [] e.w = 16 -> (lo % 65536) \in 100..599
                        [] e.w = 32 -> hi % 2 = 0 /\ lo \in 100..599
                        [] e.w = 64 -> hi = 0 /\ lo \in 100..599
           eff == CASE e.w = 8 -> lo % 256 [] e.w = 16 -> lo % 65536 [] OTHER -> lo IN
    IF inRange THEN e.res = "ok" /\ e.code = eff /\ e.success = IsSuccess(eff)
    ELSE e.res = "err"

JUrl(e) ==
  LET u == UrlParse(e.in) IN
  /\ (e.res = "ok" =>
        \* whatever the URL: reserved names are never overridden by insert
        /\ \A j \in 1..Len(e.ins) : e.ins[j][2] = (e.ins[j][1] \notin Reserved)
        /\ e.authority2 = e.authority /\ e.path2 = e.path
        /\ PairSet(e.hdrs) = { <<S_method, S_CONNECT>>, <<S_scheme, S_https>>,
                               <<S_protocol, S_webtransport>>,
                               <<S_authority, e.authority>>, <<S_path, e.path>> }
        /\ Len(e.hdrs) = 5
        /\ PairSet(e.hdrs2) = PairSet(e.hdrs) \cup
             { <<e.ins[j][1], S_injected>> : j \in { j \in 1..Len(e.ins) : e.ins[j][2] } })
  /\ CASE u.k = "ok" -> e.res = "ok" /\ e.authority = u.authority /\ e.path = u.pathq
       [] u.k = "scheme" -> e.res = "err" /\ e.e = "scheme"
       [] u.k = "outside" -> TRUE

JudgeEnc(e) ==
  Quiet(e) /\
  CASE e.ev = "varint_enc" -> JVarintEnc(e)
    [] e.ev = "frame_enc" -> JFrameEnc(e)
    [] e.ev = "shdr_enc" -> JShdrEnc(e)
    [] e.ev = "settings_enc" -> JSettingsEnc(e)
    [] e.ev = "qpack_enc" -> JQpackEnc(e)
    [] e.ev = "dgram_enc" -> JDgramEnc(e)
    [] e.ev = "ids" -> JIds(e)
    [] e.ev = "request" -> JRequest(e)
    [] e.ev = "response" -> JResponse(e)
    [] e.ev = "status" -> JStatus(e)
    [] e.ev = "url" -> JUrl(e)
=============================================================================
