SPECIFICATION Spec
CONSTANTS
  Inputs <- QInputs
  MaxChunk = 2
  Eofs <- AllEofs
INVARIANT Inv
PROPERTY Terminates
CHECK_DEADLOCK FALSE
