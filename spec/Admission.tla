----------------------------- MODULE Admission -----------------------------
(***************************************************************************)
(* Which requests and responses a WebTransport endpoint admits (RFC 9220   *)
(* extended CONNECT, draft-ietf-webtrans-http3 3.2/3.3, RFC 9110 15: a      *)
(* status code is a three-digit integer 100..599), which header names an   *)
(* application may not set, and how a URL maps to :authority and :path.    *)
(* Strings are byte sequences.                                             *)
(***************************************************************************)
EXTENDS Integers, Sequences, FiniteSets, Strs

\* a header map given as a sequence of <<name, value>>; later entries win
Lookup(pairs, name) ==
  LET idx == { j \in 1..Len(pairs) : pairs[j][1] = name } IN
  IF idx = {} THEN [has |-> FALSE]
  ELSE [has |-> TRUE, val |-> pairs[CHOOSE j \in idx : \A h \in idx : h <= j][2]]

\* the conjuncts of request admission, by name
RequestDefects(pairs) ==
  LET m == Lookup(pairs, S_method)   s == Lookup(pairs, S_scheme)
      p == Lookup(pairs, S_protocol) a == Lookup(pairs, S_authority)
      pa == Lookup(pairs, S_path) IN
  (IF ~m.has THEN {"missing_method"} ELSE IF m.val # S_CONNECT THEN {"method"} ELSE {})
  \cup (IF ~s.has THEN {"missing_scheme"} ELSE IF s.val # S_https THEN {"scheme"} ELSE {})
  \cup (IF ~p.has THEN {"missing_protocol"} ELSE IF p.val # S_webtransport THEN {"protocol"} ELSE {})
  \cup (IF ~a.has THEN {"missing_authority"} ELSE {})
  \cup (IF ~pa.has THEN {"missing_path"} ELSE {})

AdmitRequest(pairs) == RequestDefects(pairs) = {}

Reserved == {S_method, S_scheme, S_protocol, S_authority, S_path}

(* ------------------------------ status -------------------------------- *)
IsDigit(b) == b \in 48..57
AllDigits(s) == Len(s) >= 1 /\ \A i \in 1..Len(s) : IsDigit(s[i])

RECURSIVE DigitsVal(_, _, _)
\* numeric value, saturating at 100000
DigitsVal(s, i, acc) ==
  IF i > Len(s) THEN acc
  ELSE LET n == acc * 10 + (s[i] - 48) IN DigitsVal(s, i + 1, IF n > 100000 THEN 100000 ELSE n)

\* verdict for a status string:
\*  [v |-> "ok", n]      must be accepted with value n
\*  [v |-> "err"]        must be refused
\*  [v |-> "either", n]  not decided by the statement (sign, leading zeros): refused,
\*                       or accepted with exactly n
StatusVerdict(s) ==
  IF AllDigits(s) THEN
    LET n == DigitsVal(s, 1, 0) IN
    IF n < 100 \/ n > 599 THEN [v |-> "err"]
    ELSE IF Len(s) = 3 THEN [v |-> "ok", n |-> n]
    ELSE [v |-> "either", n |-> n]
  ELSE IF Len(s) >= 2 /\ s[1] = 43 /\ AllDigits(Tail(s)) THEN
    LET n == DigitsVal(Tail(s), 1, 0) IN
    IF n < 100 \/ n > 599 THEN [v |-> "err"] ELSE [v |-> "either", n |-> n]
  ELSE [v |-> "err"]

IsSuccess(n) == n \in 200..299

(* -------------------------------- URLs -------------------------------- *)
\* The sub-grammar on which URL normalisation is the identity:
\*   "https://" host [":" port] [path] ["?" query]
IsLowerAlnum(b) == b \in 97..122 \/ b \in 48..57
HostChar(b) == IsLowerAlnum(b) \/ b = 45 \/ b = 46
V6Char(b) == b \in 48..57 \/ b \in 97..102 \/ b = 58
PathChar(b) == b \in 65..90 \/ b \in 97..122 \/ b \in 48..57 \/ b \in {45, 46, 95, 126, 47}
QueryChar(b) == b \in 65..90 \/ b \in 97..122 \/ b \in 48..57 \/ b \in {45, 46, 95, 126, 61, 38}

\* first index >= i whose byte is in stop, or Len+1
RECURSIVE Find(_, _, _)
Find(s, i, stop) == IF i > Len(s) THEN i ELSE IF s[i] \in stop THEN i ELSE Find(s, i + 1, stop)

HasPrefix(s, p) == Len(s) >= Len(p) /\ SubSeq(s, 1, Len(p)) = p

\* [k |-> "ok", authority, pathq] | [k |-> "scheme"] | [k |-> "outside"]
UrlParse(u) ==
  IF ~HasPrefix(u, S_https_prefix) THEN
    \* another scheme written in the same shape is refused for its scheme
    LET c == Find(u, 1, {58}) IN
    IF c >= 3 /\ c + 2 <= Len(u) /\ u[c+1] = 47 /\ u[c+2] = 47
       /\ (\A i \in 1..(c-1) : u[i] \in 97..122) /\ SubSeq(u, 1, c - 1) # S_https
    THEN [k |-> "scheme"] ELSE [k |-> "outside"]
  ELSE
    LET a0 == 9
        aEnd == Find(u, a0, {47, 63}) - 1             \* authority = u[a0..aEnd]
        auth == SubSeq(u, a0, aEnd)
        v6 == Len(auth) >= 1 /\ auth[1] = 91
        hEnd == IF v6 THEN Find(auth, 1, {93}) ELSE Find(auth, 1, {58}) - 1
        host == SubSeq(auth, 1, hEnd)
        rest == SubSeq(auth, hEnd + 1, Len(auth))       \* "" or ":port"
        hostOk == IF v6 THEN /\ hEnd <= Len(auth) /\ Len(host) >= 4
                             /\ \A i \in 2..(Len(host)-1) : V6Char(host[i])
                  ELSE /\ Len(host) >= 1 /\ \A i \in 1..Len(host) : HostChar(host[i])
                       /\ IsLowerAlnum(host[1]) /\ IsLowerAlnum(host[Len(host)])
        portOk == rest = <<>> \/
                  (/\ Len(rest) \in 2..6 /\ rest[1] = 58 /\ AllDigits(Tail(rest))
                   /\ rest[2] # 48 /\ DigitsVal(Tail(rest), 1, 0) <= 65535)
        port == IF rest = <<>> THEN 443 ELSE DigitsVal(Tail(rest), 1, 0)
        pStart == aEnd + 1
        qMark == Find(u, pStart, {63})
        path == SubSeq(u, pStart, qMark - 1)
        hasQ == qMark <= Len(u)
        query == SubSeq(u, qMark + 1, Len(u))
        pathOk == \A i \in 1..Len(path) : PathChar(path[i])
        queryOk == \A i \in 1..Len(query) : QueryChar(query[i]) IN
    IF ~(hostOk /\ portOk /\ pathOk /\ queryOk) THEN [k |-> "outside"]
    ELSE [k |-> "ok",
          authority |-> IF port = 443 THEN host ELSE auth,
          pathq |-> (IF path = <<>> THEN S_slash ELSE path) \o (IF hasQ THEN <<63>> \o query ELSE <<>>)]
=============================================================================
