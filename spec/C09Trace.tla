------------------------------ MODULE C09Trace ------------------------------
(***************************************************************************)
(* C09: once the connection ends, every pending and every later call       *)
(* completes in bounded time with an error that names the actual cause or  *)
(* a local close made in response - never a hang, a panic, a success, a    *)
(* different code; when all handles are dropped the peer sees the close.   *)
(* The cause is read off what the raw peer / the application actually did  *)
(* (peer close, bytes on the CONNECT or control stream interpreted by the  *)
(* reference modules, local close, idle timeout, handles dropped).         *)
(***************************************************************************)
EXTENDS Integers, Sequences, FiniteSets, TLC, Hist, H3Rules, E2EBase

ConnOps == {"accept_uni", "accept_bi", "recv_dgram", "closed", "open_uni", "open_bi"}
StreamOps == {"read", "write", "finish", "stopped"}

BytesOfTag(h, t) == CatBytes(h, SortedSeq({ i \in Idx(h) : IsEv(h[i], "peer", "peer_write") /\ h[i].tag = t /\ h[i].res = "ok" }))
EndOfTag(h, t) ==
  LET ends == { i \in Idx(h) : IsEv(h[i], "peer", "peer_end") /\ h[i].tag = t } IN
  IF ends = {} THEN "open" ELSE h[CHOOSE i \in ends : \A j \in ends : i <= j].a

H3Name(code) ==
  CASE code = 51 -> "DatagramError" [] code = 256 -> "NoError" [] code = 259 -> "StreamCreationError"
    [] code = 260 -> "ClosedCriticalStreamError" [] code = 261 -> "FrameUnexpectedError"
    [] code = 262 -> "FrameError" [] code = 263 -> "ExcessiveLoad" [] code = 264 -> "IdError"
    [] code = 265 -> "SettingsError" [] code = 266 -> "MissingSettingsError"
    [] code = 267 -> "RequestRejectedError" [] code = 270 -> "MessageError"
    [] code = 512 -> "DecompressionError" [] OTHER -> "?"

\* index of the event that ends the connection, and the set of acceptable connection errors
CauseIdx(h) == LET c == { i \in Idx(h) : h[i].ev = "mark" /\ h[i].name = "cause" } IN
               IF c = {} THEN 0 ELSE CHOOSE i \in c : TRUE

ErrAllowed(h, err) ==
  LET kind == Meta(h).cause IN
  CASE kind = "peer_close" ->
         LET c == h[CHOOSE i \in Idx(h) : IsEv(h[i], "peer", "peer_close")] IN IsAppClosed(err, c.code, c.reason)
    [] kind \in {"capsule", "fin"} ->
         LET s == SessionOutcome(BytesOfTag(h, "req"), EndOfTag(h, "req")) IN
         s.k = "closed" /\ (IsAppClosed(err, s.code, s.reason) \/ err.k = "LocallyClosed")
    [] kind = "proto" ->
         LET o == CtrlFrom(BytesOfTag(h, "ctrl"), 1, EndOfTag(h, "ctrl")) IN
         o.k = "close" /\ (err.k = "LocallyClosed" \/ (err.k = "LocalH3Error" /\ \E c \in o.codes : err.h3 = H3Name(c)))
    [] kind = "local_close" -> err.k = "LocallyClosed"
    [] kind = "idle" -> err.k = "TimedOut"
    [] kind = "drop" -> err.k \in {"LocallyClosed", "TimedOut"}

After(h) == { i \in Idx(h) : i > CauseIdx(h) /\ h[i].src = "app" /\ h[i].ev = "op_done" /\ Has(h[i], "op") }

ConnOpOk(h, e) ==
  /\ e.res = "err"
  /\ IF e.err.k \in {"OpeningNotConnected"} THEN e.op \in {"open_uni", "open_bi"}
     ELSE ErrAllowed(h, e.err)

\* stream calls after the end: reading may still drain what had arrived (then end-of-stream or the error);
\* writing, finishing and waiting for a stop never report success any more - however often they are made
StreamOpOk(e) ==
  CASE e.op = "read" -> e.end.k \in {"fin", "err"} /\ (e.end.k = "err" => e.end.err.k \in {"NotConnected", "Reset"})
    [] OTHER -> e.res.k = "err" /\ e.res.err.k \in {"NotConnected", "Stopped", "Closed"}

\* what the raw peer must see
PeerSees(h) ==
  LET kind == Meta(h).cause
      closed == { i \in Idx(h) : IsEv(h[i], "peer", "peer_closed") } IN
  CASE kind = "local_close" ->
         LET c == h[CHOOSE i \in Idx(h) : IsOp(h[i], "app", "close")] IN
         \E i \in closed : h[i].why.k = "ApplicationClosed" /\ h[i].why.code = c.code /\ h[i].why.reason = c.reason
    [] kind = "proto" ->
         LET o == CtrlFrom(BytesOfTag(h, "ctrl"), 1, EndOfTag(h, "ctrl")) IN
         \E i \in closed : h[i].why.k = "ApplicationClosed" /\ h[i].why.code[1] = 0 /\ h[i].why.code[2] \in o.codes
    [] kind \in {"capsule", "fin"} ->
         \E i \in closed : h[i].why.k = "ApplicationClosed" /\ h[i].why.code = <<0, 256>>
    [] kind = "drop" -> \E i \in closed : h[i].why.k \in {"ApplicationClosed", "ConnectionClosed"}
    [] OTHER -> TRUE

JudgeC09(h) ==
  /\ CauseIdx(h) > 0
  /\ ~\E i \in Idx(h) : h[i].ev = "scenario_panic"
  /\ \A i \in After(h) :
       IF h[i].op \in ConnOps THEN ConnOpOk(h, h[i])
       ELSE IF h[i].op \in StreamOps THEN StreamOpOk(h[i])
       ELSE TRUE
  \* every spawned operation reported (none is still hanging at the end of the scenario)
  /\ \A i \in Idx(h) : (h[i].src = "app" /\ h[i].ev = "op_start") =>
        \E j \in Idx(h) : j > i /\ h[j].src = "app" /\ h[j].ev = "op_done" /\ Has(h[j], "tag") /\ h[j].tag = h[i].tag
                           /\ Has(h[j], "op") /\ h[j].op = h[i].op
  \* a session decision taken after the connection ended reports the cause as well
  /\ \A i \in Idx(h) : (i > CauseIdx(h) /\ h[i].ev = "server_decided" /\ Has(h[i], "res")) =>
        h[i].res = "err" /\ ErrAllowed(h, h[i].err)
  /\ (Meta(h).variant = "predecision" =>
        \E i \in Idx(h) : i > CauseIdx(h) /\ h[i].ev \in {"server_decided", "server_session"})
  /\ \A i \in Idx(h) : (i > CauseIdx(h) /\ h[i].ev = "server_session") =>
        h[i].res = "err" /\ ErrAllowed(h, h[i].err)
  /\ (Meta(h).cause # "drop" /\ Meta(h).variant # "predecision" => After(h) # {})
  /\ PeerSees(h)

Spec == Init /\ [][NextJ(JudgeC09)]_vars
=============================================================================
