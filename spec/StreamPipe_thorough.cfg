SPECIFICATION Spec
CONSTANTS
  Preambles <- PreThorough
  MaxPayload1 = 4
  Bytes = {0, 64, 84, 255}
INVARIANT Inv
PROPERTY Complete
CHECK_DEADLOCK FALSE
