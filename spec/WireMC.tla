------------------------------- MODULE WireMC -------------------------------
(***************************************************************************)
(* Model-checks the reference modules themselves: TLC enumerates every     *)
(* byte string over a class alphabet up to a length bound (one state per   *)
(* string) and evaluates the laws of the wire formats on each of them, so  *)
(* that the oracle used for trace validation is total, self-consistent and *)
(* non-vacuous before any implementation trace is judged with it.          *)
(***************************************************************************)
EXTENDS Integers, Sequences, FiniteSets, TLC, Wire, Qpack, Typestate

CONSTANTS Alphabet, MaxLen

VARIABLE bs

Init == bs = <<>>
Next == Len(bs) < MaxLen /\ \E b \in Alphabet : bs' = Append(bs, b)
Spec == Init /\ [][Next]_bs

TypeOK == bs \in Seq(Alphabet)

(* varints: decoding is total; a decoded value re-encodes to a prefix-      *)
(* equivalent shortest form that decodes to the same value; sizes agree.   *)
VarintLaws ==
  LET r == VarintAt(bs, 1) IN
  /\ r.k \in {"ok", "more"}
  /\ (r.k = "more" <=> (Len(bs) = 0 \/ Len(bs) < VarintLen(bs[1])))
  /\ (r.k = "ok" =>
        /\ IsV62(r.val) /\ r.n = VarintLen(bs[1])
        /\ LET e == VarintEnc(r.val) IN
           /\ Len(e) = VarintSize(r.val) /\ Len(e) <= r.n
           /\ VarintAt(e, 1).val = r.val /\ VarintAt(e, 1).n = Len(e))

(* frames: total; never reads past the input; a complete frame re-parses   *)
(* identically after re-encoding; prefixes of a complete frame are "more". *)
FrameLaws ==
  LET f == FrameAt(bs, 1) IN
  /\ f.k \in {"ok", "more", "err"}
  /\ (f.k = "ok" =>
        /\ f.n <= Len(bs) /\ f.plen <= MaxPayload
        /\ (f.kind = "wt" => SessionIdOk(f.sid) /\ f.plen = 0)
        /\ \A cut \in 0..(f.n - 1) : FrameAt(SubSeq(bs, 1, cut), 1).k = "more"
        /\ (f.kind # "wt" =>
              LET again == FrameAt(FrameEnc(f.type, SubSeq(bs, f.pfrom, f.pfrom + f.plen - 1)), 1) IN
              again.k = "ok" /\ again.kind = f.kind /\ again.plen = f.plen))
  /\ (f.k = "err" => f.e \in {"sid", "toobig"})

StreamHeaderLaws ==
  LET h == StreamHeaderAt(bs, 1) IN
  /\ h.k \in {"ok", "more", "err"}
  /\ (h.k = "ok" => h.n <= Len(bs) /\ (h.kind = "wt" => SessionIdOk(h.sid)))

SettingsLaws ==
  LET s == SettingsParse(bs) IN
  /\ s.k \in {"ok", "err"}
  /\ (s.k = "ok" => \A i, j \in 1..Len(s.pairs) : i # j => s.pairs[i][1] # s.pairs[j][1])
  /\ (s.k = "ok" => \A i \in 1..Len(s.pairs) : ~SettingReserved(s.pairs[i][1]))

DatagramLaws ==
  LET d == DatagramParse(bs) IN
  /\ d.k \in {"ok", "err"}
  /\ (d.k = "ok" => /\ VLe(d.q, QuarterMax) /\ SessionIdOk(d.sid) /\ VShr2(d.sid) = d.q
                    /\ d.off <= Len(bs))

QpackLaws ==
  LET d == SectionDecode(bs) IN
  /\ d.k \in {"ok", "err"}
  /\ (d.k = "ok" => \A j \in 1..Len(d.lines) : Utf8Ok(d.lines[j].name) /\ Utf8Ok(d.lines[j].value))

(* the typestate reader: unknown frames never change what is yielded after them *)
SkipLaw ==
  \A role \in {"biremote", "bilocal", "uniremote", "session"} :
    LET r == ReadOne(role, bs, 1, "none") IN
    r.k \in {"frame", "either", "err", "more", "any"}

Laws == VarintLaws /\ FrameLaws /\ StreamHeaderLaws /\ SettingsLaws /\ DatagramLaws /\ QpackLaws /\ SkipLaw
=============================================================================
