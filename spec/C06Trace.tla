------------------------------ MODULE C06Trace ------------------------------
(***************************************************************************)
(* C06: the StreamLife monitor folded over the operations recorded from    *)
(* two real wtransport endpoints replaying a TLC-generated history.        *)
(* meta: sside/stag (who sends, under which tag), rside/rtag.              *)
(***************************************************************************)
EXTENDS Integers, Sequences, FiniteSets, TLC, Hist, StreamLife, E2EBase

SOps == {"write", "finish", "reset", "stopped", "cut", "uncut"}
ROps == {"read", "stop"}

OpsOf(h) ==
  LET m == Meta(h) IN
  SortedSeq({ i \in Idx(h) : /\ h[i].ev = "op_done" /\ Has(h[i], "op")
      /\ \/ (Has(h[i], "tag") /\ h[i].src = m.sside /\ h[i].tag = m.stag /\ h[i].op \in SOps)
         \/ (Has(h[i], "tag") /\ h[i].src = m.rside /\ h[i].tag = m.rtag /\ h[i].op \in ROps)
         \/ (h[i].src = m.rside /\ h[i].op = "close") })      \* the receiving side closes the connection

ErrRes(err) == R(err.k, IF Has(err, "code") THEN err.code ELSE NoCode, 0)

\* abstraction of a recorded op_done event to (operation, result)
AbsOp(e) ==
  [side |-> IF e.op \in SOps THEN "S" ELSE "R", op |-> IF e.op = "close" THEN "lose" ELSE e.op,
   code |-> IF Has(e, "code") THEN e.code ELSE NoCode,
   n |-> IF e.op = "write" THEN e.len ELSE 0]

AbsRes(e) ==
  CASE e.op = "write" ->
         IF e.res.k = "ok" THEN R("ok", NoCode, e.written)
         ELSE IF e.res.k = "err" THEN ErrRes(e.res.err) ELSE R(e.res.k, NoCode, 0)
    [] e.op \in {"finish", "stopped"} ->
         IF e.res.k = "err" THEN ErrRes(e.res.err) ELSE R(e.res.k, NoCode, 0)
    [] e.op = "reset" -> R(e.res, NoCode, 0)
    [] e.op \in {"stop", "close", "cut", "uncut"} -> R(e.res, NoCode, 0)
    [] e.op = "read" ->
         IF e.end.k = "err" THEN R(e.end.err.k, IF Has(e.end.err, "code") THEN e.end.err.code ELSE NoCode, e.len)
         ELSE R(e.end.k, NoCode, e.len)

\* every byte a read returns continues the written pattern at the right offset
DataOk(e) == e.op = "read" => (e.pat_upto = e.len)

RECURSIVE Walk(_, _, _)
Walk(h, idx, st) ==
  IF idx = <<>> THEN TRUE
  ELSE LET e == h[Head(idx)]
           o == AbsOp(e)
           r == AbsRes(e) IN
    /\ DataOk(e)
    /\ Fits(Allowed(st, o), r)
    /\ Walk(h, Tail(idx), IF ANY \in Allowed(st, o) THEN st ELSE Upd(st, o, r))

JudgeC06(h) ==
  LET ops == OpsOf(h) IN
  /\ Len(ops) = Meta(h).nops          \* every scripted operation was executed and logged
  /\ Walk(h, ops, InitSt)

Spec == Init /\ [][NextJ(JudgeC06)]_vars
=============================================================================
