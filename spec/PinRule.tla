------------------------------ MODULE PinRule ------------------------------
(* The pinning rule and the verifier's step machine (see Pinning.tla). *)
EXTENDS Integers

MaxPeriod == 1209600            \* 14 days

\* c: [now, period, key, pinned]  (now relative to notBefore; notAfter = period)
Accept(c) ==
  /\ c.now >= 0 /\ c.now <= c.period
  /\ c.period <= MaxPeriod
  /\ c.key = "p256"
  /\ c.pinned

\* the verifier, step by step, with the error each step reports
StepVerdict(c) ==
  IF c.now < 0 THEN "NotValidYet"
  ELSE IF c.now > c.period THEN "Expired"
  ELSE IF c.period > MaxPeriod THEN "UnknownIssuer"
  ELSE IF c.key # "p256" THEN "UnknownIssuer"
  ELSE IF ~c.pinned THEN "UnknownIssuer"
  ELSE "ok"

=============================================================================
