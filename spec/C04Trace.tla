------------------------------ MODULE C04Trace ------------------------------
(***************************************************************************)
(* C04: when the peer ends the session, every operation that waits on the  *)
(* peer reports exactly the peer's code and reason (clean styles), or a    *)
(* protocol failure and never an application close (abrupt / malformed).   *)
(* The expected cause is computed from the bytes the raw peer actually     *)
(* wrote on the CONNECT stream, interpreted by Session!SessionOutcome.     *)
(***************************************************************************)
EXTENDS Integers, Sequences, FiniteSets, TLC, Hist, Session, E2EBase

\* what the raw peer did to the session stream ("req") in this history
ReqWrites(h) == SortedSeq({ i \in Idx(h) : IsEv(h[i], "peer", "peer_write") /\ h[i].tag = "req" /\ h[i].res = "ok" })
ReqEnd(h) ==
  LET ends == { i \in Idx(h) : IsEv(h[i], "peer", "peer_end") /\ h[i].tag = "req" } IN
  IF ends = {} THEN "open"
  ELSE LET i == CHOOSE i \in ends : \A j \in ends : i <= j IN h[i].a

QuicClose(h) == { i \in Idx(h) : IsEv(h[i], "peer", "peer_close") }

\* the event index at which the peer's terminating action happened
TermIdx(h) ==
  LET cands == QuicClose(h) \cup { i \in Idx(h) : h[i].src = "peer" /\ h[i].ev \in {"peer_write", "peer_end"}
                                                   /\ Has(h[i], "tag") /\ h[i].tag = "req" } IN
  IF cands = {} THEN 0 ELSE CHOOSE i \in cands : \A j \in cands : j <= i

WaitingOps == {"accept_uni", "accept_bi", "recv_dgram"}

\* operations that wait on the peer and completed after the termination
Reports(h) == { i \in Idx(h) : /\ h[i].src = "app" /\ h[i].ev = "op_done" /\ Has(h[i], "op")
                               /\ h[i].op \in WaitingOps /\ i > TermIdx(h) }

\* (bound variables over singleton sets force TLC to evaluate each expensive
\* sub-expression once instead of at every use)
JudgeC04(h) ==
  \E t \in {TermIdx(h)} :
  \E sess \in {SessionOutcome(CatBytes(h, ReqWrites(h)), ReqEnd(h))} :
  \E qc \in {QuicClose(h)} :
  \E reports \in {{ i \in Idx(h) : /\ h[i].src = "app" /\ h[i].ev = "op_done" /\ Has(h[i], "op")
                                     /\ h[i].op \in WaitingOps /\ i > t }} :
  /\ t > 0
  /\ \E i \in reports : h[i].res = "err"    \* the scenario did observe the termination
  /\ \A i \in reports :
       \* a stream the peer had opened BEFORE it ended the session may still be handed over (it was
       \* received first); anything else is an error - never another success, a hang or a timeout
       \/ /\ h[i].op \in {"accept_uni", "accept_bi"} /\ h[i].res = "ok"
          /\ \E j \in Idx(h) : j < t /\ IsEv(h[j], "peer", "peer_open") /\ h[j].id = h[i].id
       \/ /\ h[i].res = "err"
          /\ IF qc # {} /\ sess.k = "alive" THEN
               LET c == h[CHOOSE j \in qc : TRUE] IN IsAppClosed(h[i].err, c.code, c.reason)
             ELSE IF sess.k = "closed" THEN IsAppClosed(h[i].err, sess.code, sess.reason)
             ELSE IF sess.k = "proto" THEN h[i].err.k # "ApplicationClosed" /\ IsProtoFailure(h[i].err)
             ELSE FALSE

Spec == Init /\ [][NextJ(JudgeC04)]_vars
=============================================================================
