------------------------------- MODULE Config -------------------------------
(***************************************************************************)
(* What each configuration choice promises (C20), written from the          *)
(* documentation of IpBindConfig / Ipv6DualStackConfig and of the builder  *)
(* methods: which address an endpoint binds, whether IPv4 and IPv6 peers    *)
(* on loopback can reach it, which idle timeouts are representable          *)
(* (QUIC encodes max_idle_timeout as a variable-length integer of           *)
(* milliseconds: below 2^62), and what idle timeout / keep-alive /          *)
(* migration / reload must do.  "any" = not decided by the documentation.   *)
(***************************************************************************)
EXTENDS Integers, Sequences, FiniteSets

\* preset |-> [family, ip (text), v4 reachable, v6 reachable]
BindTable(p) ==
  CASE p = "LocalV4"       -> [family |-> "v4", ip |-> "127.0.0.1", v4 |-> "yes", v6 |-> "no"]
    [] p = "LocalV6"       -> [family |-> "v6", ip |-> "::1",       v4 |-> "no",  v6 |-> "yes"]
    [] p = "LocalDual"     -> [family |-> "v6", ip |-> "::1",       v4 |-> "any", v6 |-> "yes"]
    [] p = "InAddrAnyV4"   -> [family |-> "v4", ip |-> "0.0.0.0",   v4 |-> "yes", v6 |-> "no"]
    [] p = "InAddrAnyV6"   -> [family |-> "v6", ip |-> "::",        v4 |-> "no",  v6 |-> "yes"]
    [] p = "InAddrAnyDual" -> [family |-> "v6", ip |-> "::",        v4 |-> "yes", v6 |-> "yes"]
    [] p = "v4_addr"       -> [family |-> "v4", ip |-> "127.0.0.1", v4 |-> "yes", v6 |-> "no"]
    [] p = "v6_os_default" -> [family |-> "v6", ip |-> "::1",       v4 |-> "any", v6 |-> "yes"]
    [] p = "v6_deny"       -> [family |-> "v6", ip |-> "::",        v4 |-> "no",  v6 |-> "yes"]
    [] p = "v6_allow"      -> [family |-> "v6", ip |-> "::",        v4 |-> "yes", v6 |-> "yes"]
    [] p = "socket"        -> [family |-> "v4", ip |-> "127.0.0.1", v4 |-> "yes", v6 |-> "no"]

Fits(want, got) == want = "any" \/ (want = "yes") = got

\* QUIC's max_idle_timeout is a varint of milliseconds: representable iff below 2^62
\* (ms: base-2^31 digits, least significant first; <<>> = no timeout)
IdleRepresentable(ms) == \A i \in 3..Len(ms) : ms[i] = 0
=============================================================================
