------------------------------- MODULE Qpack -------------------------------
(***************************************************************************)
(* Reference QPACK field-section decoder for an endpoint that advertises   *)
(* a zero-capacity dynamic table (RFC 9204 4.5, RFC 7541 5.1/5.2),          *)
(* Huffman decoding bit by bit against the RFC 7541 Appendix B code, and   *)
(* the admissibility predicate for sections such an endpoint may emit.     *)
(***************************************************************************)
EXTENDS Integers, Sequences, SequencesExt, Wire, QpackTables

(* ------------------------- prefix integers ----------------------------- *)
\* Values are exact while below Huge; anything at or above is the token HugeTok
\* (any index or length that large can only end in an error).
Huge == 16777216
HugeTok == -1

RECURSIVE PrefixCont(_, _, _, _, _)
\* continuation bytes from index i: value so far v (or HugeTok), multiplier m (capped),
\* cnt continuation bytes read so far
PrefixCont(bs, i, v, m, cnt) ==
  IF i > Len(bs) THEN [k |-> "eof"]
  ELSE LET b == bs[i]
           add == IF m >= Huge THEN (IF b % 128 = 0 THEN 0 ELSE Huge) ELSE (b % 128) * m
           nv == IF v = HugeTok THEN HugeTok
                 ELSE IF add >= Huge \/ v + add >= Huge THEN HugeTok ELSE v + add
           nm == IF m >= Huge THEN Huge ELSE m * 128 IN
    IF b >= 128 THEN PrefixCont(bs, i + 1, nv, nm, cnt + 1)
    ELSE [k |-> "ok", val |-> nv, next |-> i + 1, long |-> cnt + 1 > 4]

\* N-bit prefix integer at index i: [k |-> "eof"] | [k |-> "ok", val, next, flags, long]
\* long: more than four continuation bytes - RFC 7541 5.1 lets an implementation treat
\* encodings beyond its limits "in value or octet length" as errors, so a decoder may
\* refuse such an integer even when its value is small.
PrefixInt(bs, i, N) ==
  IF i > Len(bs) THEN [k |-> "eof"]
  ELSE LET mask == 2^N - 1
           low == bs[i] % (mask + 1)
           flags == bs[i] \div (mask + 1) IN
    IF low < mask THEN [k |-> "ok", val |-> low, next |-> i + 1, flags |-> flags, long |-> FALSE]
    ELSE LET c == PrefixCont(bs, i + 1, mask, 1, 0) IN
      IF c.k = "eof" THEN c
      ELSE [k |-> "ok", val |-> c.val, next |-> c.next, flags |-> flags, long |-> c.long]

\* shortest prefix-integer encoding (value < Huge)
RECURSIVE PrefixTail(_)
PrefixTail(rem) == IF rem >= 128 THEN <<128 + (rem % 128)>> \o PrefixTail(rem \div 128) ELSE <<rem>>
PrefixEnc(high, N, v) ==
  LET mask == 2^N - 1 IN
  IF v < mask THEN <<high + v>> ELSE <<high + mask>> \o PrefixTail(v - mask)

(* ------------------------------ Huffman -------------------------------- *)
\* One bit of Huffman input.  State: k ("run" | "err"), acc = the n bits read since the
\* last symbol, out = symbols so far.  (A fold, not a recursion: TLC evaluates FoldLeft
\* iteratively, and strings can be thousands of bits long.)
HuffStep(st, bit) ==
  IF st.k # "run" THEN st
  ELSE LET a == st.acc * 2 + bit
           m == st.n + 1 IN
    IF m \in HuffLens /\ a \in DOMAIN HuffCode[m] THEN
      LET sym == HuffCode[m][a] IN
      IF sym = 256 THEN [k |-> "err", acc |-> 0, n |-> 0, out |-> st.out]   \* EOS inside the string
      ELSE [k |-> "run", acc |-> 0, n |-> 0, out |-> Append(st.out, sym)]
    ELSE IF m >= 30 THEN [k |-> "err", acc |-> 0, n |-> 0, out |-> st.out]
    ELSE [k |-> "run", acc |-> a, n |-> m, out |-> st.out]

HuffByte(st, b) ==
  HuffStep(HuffStep(HuffStep(HuffStep(HuffStep(HuffStep(HuffStep(HuffStep(st,
    (b \div 128) % 2), (b \div 64) % 2), (b \div 32) % 2), (b \div 16) % 2),
    (b \div 8) % 2), (b \div 4) % 2), (b \div 2) % 2), b % 2)

\* result: [k |-> "ok", out] | [k |-> "err"] | [k |-> "badpad", out]
\* RFC 7541 5.2: the padding is at most 7 bits, all ones (a prefix of EOS)
HuffDecode(bs) ==
  LET f == FoldLeft(HuffByte, [k |-> "run", acc |-> 0, n |-> 0, out |-> <<>>], bs) IN
  IF f.k = "err" THEN [k |-> "err"]
  ELSE IF f.n = 0 \/ (f.n <= 7 /\ f.acc = 2^(f.n) - 1) THEN [k |-> "ok", out |-> f.out]
  ELSE [k |-> "badpad", out |-> f.out]

RECURSIVE HuffEncBits(_, _)
\* total number of bits of the Huffman encoding of bs[i..]
HuffEncBits(bs, i) == IF i > Len(bs) THEN 0 ELSE HuffEnc[bs[i] + 1][1] + HuffEncBits(bs, i + 1)
HuffEncLen(bs) == (HuffEncBits(bs, 1) + 7) \div 8

(* ------------------------------ strings -------------------------------- *)
\* string literal whose length has an N-bit prefix; the Huffman flag is the bit above it
\* [k |-> "err"] | [k |-> "ok", str, next, huff, strict]
\* strict = FALSE when the only defect is the Huffman padding (RFC 7541 5.2 says
\* error; third-party decoders differ, so callers may treat it as unconstrained)
StringAt(bs, i, N) ==
  LET p == PrefixInt(bs, i, N) IN
  IF p.k = "eof" THEN [k |-> "err"]
  ELSE IF p.val = HugeTok THEN [k |-> "err"]
  ELSE IF p.next + p.val - 1 > Len(bs) THEN [k |-> "err"]
  ELSE LET raw == SubSeq(bs, p.next, p.next + p.val - 1)
           huff == p.flags % 2 = 1 IN
    IF ~huff THEN
      IF Utf8Ok(raw) THEN [k |-> "ok", str |-> raw, next |-> p.next + p.val, huff |-> FALSE, strict |-> ~p.long]
      ELSE [k |-> "err"]
    ELSE LET h == HuffDecode(raw) IN
      IF h.k = "err" THEN [k |-> "err"]
      ELSE IF ~Utf8Ok(h.out) THEN [k |-> "err"]
      ELSE [k |-> "ok", str |-> h.out, next |-> p.next + p.val, huff |-> TRUE,
            strict |-> (h.k = "ok" /\ ~p.long)]

(* ---------------------------- field sections --------------------------- *)
RECURSIVE LinesFrom(_, _, _, _)
\* [k |-> "ok", lines (sequence of [name, value, rep]), strict] | [k |-> "err"]
LinesFrom(bs, i, acc, strict) ==
  IF i > Len(bs) THEN [k |-> "ok", lines |-> acc, strict |-> strict]
  ELSE LET b == bs[i] IN
    IF b >= 128 THEN                                   \* 1Txxxxxx indexed field line
      IF b < 192 THEN [k |-> "err"]                    \* T = 0: dynamic table
      ELSE LET p == PrefixInt(bs, i, 6) IN
        IF p.k = "eof" \/ p.val = HugeTok THEN [k |-> "err"]
        ELSE IF p.val > 98 THEN [k |-> "err"]
        ELSE LinesFrom(bs, p.next,
               Append(acc, [name |-> StaticTable[p.val + 1][1],
                            value |-> StaticTable[p.val + 1][2], rep |-> "idx"]), strict /\ ~p.long)
    ELSE IF b >= 64 THEN                               \* 01NTxxxx literal with name reference
      IF (b \div 16) % 2 = 0 THEN [k |-> "err"]        \* T = 0: dynamic table
      ELSE LET p == PrefixInt(bs, i, 4) IN
        IF p.k = "eof" \/ p.val = HugeTok THEN [k |-> "err"]
        ELSE IF p.val > 98 THEN [k |-> "err"]
        ELSE LET s == StringAt(bs, p.next, 7) IN
          IF s.k = "err" THEN [k |-> "err"]
          ELSE LinesFrom(bs, s.next,
                 Append(acc, [name |-> StaticTable[p.val + 1][1], value |-> s.str, rep |-> "nameref"]),
                 strict /\ s.strict /\ ~p.long)
    ELSE IF b >= 32 THEN                               \* 001NHxxx literal with literal name
      LET n == StringAt(bs, i, 3) IN
      IF n.k = "err" THEN [k |-> "err"]
      ELSE LET s == StringAt(bs, n.next, 7) IN
        IF s.k = "err" THEN [k |-> "err"]
        ELSE LinesFrom(bs, s.next,
               Append(acc, [name |-> n.str, value |-> s.str, rep |-> "literal"]),
               strict /\ n.strict /\ s.strict)
    ELSE [k |-> "err"]                                 \* 0001xxxx / 0000xxxx post-base: dynamic

\* Encoded field section prefix: Required Insert Count (8-bit prefix), S + Delta Base (7-bit).
\* With a zero-capacity table the only values that need no dynamic state are decoded and
\* ignored by a static-only decoder; a truncated prefix is an error.
SectionDecode(bs) ==
  LET ric == PrefixInt(bs, 1, 8) IN
  IF ric.k = "eof" THEN [k |-> "err"]
  ELSE LET base == PrefixInt(bs, ric.next, 7) IN
    IF base.k = "eof" THEN [k |-> "err"]
    ELSE LET r == LinesFrom(bs, base.next, <<>>, TRUE) IN
      IF r.k = "err" THEN r
      ELSE [k |-> "ok", lines |-> r.lines,
            strict |-> r.strict /\ ~ric.long /\ ~base.long,
            ric |-> ric.val, base |-> base.val]

\* last-wins map view of a list of lines, as a set of <<name, value>>
MapOf(lines) ==
  { <<lines[j].name, lines[j].value>> : j \in
      { j \in 1..Len(lines) : \A h \in (j+1)..Len(lines) : lines[h].name # lines[j].name } }

IsPseudo(name) == Len(name) > 0 /\ name[1] = 58

\* What a zero-capacity-table endpoint may emit (RFC 9204 4.5.1: RIC = 0, base = 0; only
\* static or literal representations)
SectionStatic(bs) ==
  LET d == SectionDecode(bs) IN
  /\ d.k = "ok"
  /\ d.strict
  /\ d.ric = 0 /\ d.base = 0
  /\ Len(bs) >= 2 /\ bs[1] = 0 /\ bs[2] = 0

\* RFC 9114 4.3: all pseudo-header fields precede the regular fields
PseudoFirst(lines) ==
  \A j \in 1..Len(lines) : \A h \in 1..Len(lines) :
     (IsPseudo(lines[h].name) /\ ~IsPseudo(lines[j].name)) => h < j

SectionAdmissible(bs) == SectionStatic(bs) /\ PseudoFirst(SectionDecode(bs).lines)
=============================================================================
