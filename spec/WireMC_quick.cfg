SPECIFICATION Spec
CONSTANTS
  Alphabet = {0, 1, 2, 4, 15, 33, 63, 64, 65, 84, 128, 192, 209, 255}
  MaxLen = 3
INVARIANTS TypeOK Laws
CHECK_DEADLOCK FALSE
