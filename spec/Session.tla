------------------------------ MODULE Session ------------------------------
(***************************************************************************)
(* What the bytes a peer puts on the session's CONNECT stream mean for the *)
(* session (draft-ietf-webtrans-http3 5: CLOSE_WEBTRANSPORT_SESSION in a   *)
(* DATA frame, a clean FIN equals code 0 / empty message; RFC 9114: the    *)
(* stream ending inside a frame is H3_FRAME_ERROR; unknown frames and      *)
(* unknown capsules are skipped), and which errors an operation may report *)
(* for each way a connection can end (C04, C09).                           *)
(***************************************************************************)
EXTENDS Integers, Sequences, FiniteSets, Wire

RECURSIVE SessFrom(_, _, _)
\* bs: every byte the peer wrote on the stream; end: "fin" | "reset" | "open"
\* [k |-> "alive"] | [k |-> "closed", code, reason] | [k |-> "proto"]
SessFrom(bs, i, end) ==
  LET f == FrameAt(bs, i) IN
  IF f.k = "more" THEN
    IF end = "open" THEN [k |-> "alive"]
    ELSE IF end = "reset" THEN [k |-> "proto"]
    ELSE IF i > Len(bs) THEN [k |-> "closed", code |-> V(0), reason |-> <<>>]
    ELSE [k |-> "proto"]
  ELSE IF f.k = "err" THEN [k |-> "proto"]
  ELSE IF f.kind \in {"unknown", "grease", "headers"} THEN SessFrom(bs, i + f.n, end)
  ELSE IF f.kind = "data" THEN
    LET c == CapsuleParse(SubSeq(bs, f.pfrom, f.pfrom + f.plen - 1)) IN
    IF c.k = "none" THEN SessFrom(bs, i + f.n, end)
    ELSE LET v == SubSeq(bs, f.pfrom + c.from - 1, f.pfrom + c.from - 1 + c.len - 1)
             cl == CloseParse(v) IN
      IF cl.k = "err" THEN [k |-> "proto"]
      ELSE [k |-> "closed", code |-> cl.code, reason |-> cl.reason]
  ELSE [k |-> "proto"]

SessionOutcome(bs, end) == SessFrom(bs, 1, end)

(* ---- error values as the interface reports them (records with field k) ---- *)
IsAppClosed(err, code, reason) ==
  err.k = "ApplicationClosed" /\ err.code = code /\ err.reason = reason

\* a protocol failure: the library's own H3 error (or the local close that follows it)
IsProtoFailure(err) == err.k \in {"LocalH3Error", "LocallyClosed"}
=============================================================================
