SPECIFICATION Spec
CONSTANTS
  Alphabet = {0, 1, 2, 3, 4, 5, 8, 15, 33, 63, 64, 65, 84, 127, 128, 192, 209, 255}
  MaxLen = 4
INVARIANTS TypeOK Laws
CHECK_DEADLOCK FALSE
