------------------------------ MODULE C02Trace ------------------------------
(***************************************************************************)
(* C02: the server application sees exactly the URL's authority and        *)
(* path-with-query and exactly the additional fields (plus the five fixed  *)
(* pseudo-headers); connect succeeds iff the server accepts, fails as      *)
(* "session rejected" iff it answers non-2xx; both ends report the same    *)
(* session id; extra response fields change nothing.                       *)
(***************************************************************************)
EXTENDS Integers, Sequences, FiniteSets, TLC, Hist, Wire, Admission, E2EBase

Ev(h, ev) == { i \in Idx(h) : h[i].ev = ev }
PairSet(s) == { <<s[j][1], s[j][2]>> : j \in 1..Len(s) }

JudgeC02(h) ==
  LET m == Meta(h)
      crs == Ev(h, "connect_returned")
      sss == Ev(h, "server_saw")
      sds == Ev(h, "server_decided") IN
  /\ Cardinality(crs) = 1 /\ Cardinality(sss) = 1 /\ Cardinality(sds) = 1
  /\ LET cr == h[CHOOSE i \in crs : TRUE]
         ss == h[CHOOSE i \in sss : TRUE]
         sd == h[CHOOSE i \in sds : TRUE]
         u == UrlParse(cr.url) IN
     /\ u.k = "ok"
     /\ ss.authority = u.authority
     /\ ss.path = u.pathq
     /\ Len(ss.headers) = 5 + Len(m.hdrs)
     /\ PairSet(ss.headers) =
          { <<S_method, S_CONNECT>>, <<S_scheme, S_https>>, <<S_protocol, S_webtransport>>,
            <<S_authority, u.authority>>, <<S_path, u.pathq>> } \cup PairSet(m.hdrs)
     /\ sd.d = m.decision
     /\ IF m.decision \in {"accept", "accept_headers"} THEN
          /\ sd.res = "ok" /\ cr.res = "ok"
          /\ cr.sid = sd.sid /\ SessionIdOk(cr.sid)
        ELSE
          /\ cr.res = "err" /\ cr.err.k = "SessionRejected"

Spec == Init /\ [][NextJ(JudgeC02)]_vars
=============================================================================
