SPECIFICATION Spec
CONSTANTS
  Uni = {1, 2, 3}
  Bi = {11, 12}
  Stalled = {2}
  ClassOf <- Foreign3
  CapUniH3 = 4
  CapUniWT = 4
  CapBiH3 = 1
  CapBiWT = 1
  CapDg = 1
  Callers = {"a", "b", "c"}
  Wants <- W3
  NDg = 1
  MaxCancels = 2
  Causes <- TwoCauses
INVARIANTS ExactlyOnce PermitsSane ResultBeforeClose CauseNotMisattributed
CHECK_DEADLOCK FALSE
