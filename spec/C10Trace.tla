------------------------------ MODULE C10Trace ------------------------------
(***************************************************************************)
(* C10 end to end: trust policy x server identity.  connect yields a        *)
(* session iff the policy accepts the identity - hash pinning accepts only  *)
(* the pinned, currently valid, at-most-14-day, P-256 leaf; the default     *)
(* policy (native roots) never accepts a self-signed leaf; "no validation"  *)
(* accepts anything.  A refused server never yields a session on either     *)
(* side.                                                                    *)
(***************************************************************************)
EXTENDS Integers, Sequences, FiniteSets, TLC, Hist, E2EBase

PolicyAccepts(trust, identity) ==
  CASE trust = "none" -> TRUE
    [] trust \in {"hash_own", "hash_many_own"} -> identity = "pinned14"
    [] OTHER -> FALSE          \* hash_other, hash_none, native

JudgeC10(h) ==
  LET m == Meta(h)
      crs == { i \in Idx(h) : h[i].ev = "connect_returned" }
      sds == { i \in Idx(h) : h[i].ev = "server_decided" /\ Has(h[i], "res") /\ h[i].res = "ok" } IN
  /\ Cardinality(crs) = 1
  /\ LET cr == h[CHOOSE i \in crs : TRUE] IN
     IF PolicyAccepts(m.trust, m.identity) THEN cr.res = "ok" /\ sds # {}
     ELSE /\ cr.res = "err" /\ cr.err.k = "ConnectionError"
          /\ sds = {}
          /\ ~\E i \in Idx(h) : h[i].ev = "server_saw"

Spec == Init /\ [][NextJ(JudgeC10)]_vars
=============================================================================
