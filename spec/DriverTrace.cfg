SPECIFICATION TSpec
CONSTANTS
  Uni <- TUni
  Bi <- TBi
  Stalled = {}
  ClassOf <- TClass
  CapUniH3 = 4
  CapUniWT = 4
  CapBiH3 = 1
  CapBiWT = 1
  CapDg = 1
  Callers <- TCallers
  Wants <- TWants
  NDg = 1000000000
  Causes = {}
  MaxCancels = 1000000000
INVARIANTS TraceInv
CONSTRAINT Track
POSTCONDITION Report
CHECK_DEADLOCK FALSE
