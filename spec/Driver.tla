------------------------------- MODULE Driver  -------------------------------
(***************************************************************************)
(* The concurrency mechanism of wtransport/src/driver/mod.rs, one action   *)
(* per await-free segment of the code:                                     *)
(*                                                                         *)
(*  peer      opens streams (quinn accept queues), sends each stream's     *)
(*            preamble or stalls before completing it, sends datagrams     *)
(*  worker    select! loop: accept_uni / accept_bi take ONE permit of the  *)
(*            internal h3 queue and ONE of the application-facing wt queue *)
(*            BEFORE pulling the next stream from quinn, then spawn a task *)
(*            per stream that holds both permits until the preamble has    *)
(*            been parsed; the loop drains its internal h3 queues;         *)
(*            accept_datagram reserves the (capacity 1) datagram slot      *)
(*            before reading a datagram                                    *)
(*  tasks     end in one of five ways:                                     *)
(*              "wt"   WebTransport stream: the wt permit becomes a queued *)
(*                     stream, the h3 permit is returned                   *)
(*              "h3"   HTTP/3 stream (control, QPACK, request, GREASE):    *)
(*                     the h3 permit becomes an item of the worker's       *)
(*                     internal queue, the wt permit is returned           *)
(*              "bad"  protocol error: an Err item in the internal queue   *)
(*              "junk" unknown type / stream ended early: both returned    *)
(*              (io)   the connection went away: both returned             *)
(*  app       callers take the receiver mutex, recv, filter by session,    *)
(*            release; a pending call can be cancelled at any point        *)
(*  end       a cause makes the worker leave its loop: it closes QUIC,     *)
(*            SETS THE SHARED RESULT, and only then drops its queue        *)
(*            senders; receivers that find a closed queue read the result  *)
(*                                                                         *)
(* The same actions are used by DriverTrace.tla to validate the mechanism  *)
(* events recorded from the running code (wtransport_verif hooks): there   *)
(* the class of a stream, the session match and the capacities come from   *)
(* the log instead of the constants below.                                 *)
(***************************************************************************)
EXTENDS Naturals, Sequences, FiniteSets, TLC

CONSTANTS
  Uni, Bi,            \* stream identifiers the peer may open, by kind
  Stalled,            \* streams whose preamble never completes
  ClassOf,            \* ClassOf[s] \in {"wt", "foreign", "h3", "bad", "junk"}: how the stream's task ends
  CapUniH3, CapUniWT, CapBiH3, CapBiWT, CapDg,
  Callers,            \* application calls of accept_uni / accept_bi
  Wants,              \* Wants[c]: "uni" | "bi"
  NDg,                \* datagrams the peer sends
  Causes,             \* termination causes that may arise by themselves ({} = none)
  MaxCancels          \* bound on cancellations (exploration only)

Streams == Uni \cup Bi

VARIABLES
  opened,        \* streams the peer has opened (sequence) - quinn's accept queues hold the not-yet-pulled ones
  pre,           \* streams whose preamble bytes have all arrived
  dgSent,
  pulled,        \* streams the worker has pulled from quinn
  tasks,         \* streams whose per-stream task is running (holding both permits)
  h3q,           \* h3q[kind]: the worker's internal queue (streams handed back to the loop)
  dgSlot,
  chUni, chBi,   \* application-facing queues (sequences of streams)
  chDg,
  cs,            \* cs[c]: "idle" | "lock" (waiting for the receiver mutex) | "recv" (holding it) | "err"
  lockUni, lockBi,   \* the receiver mutexes: the set of holders ({} = free, never more than one)
  delivered,     \* set of <<caller, stream>>
  refused,       \* streams stopped by the session filter
  dgGot, cancels,
  result,        \* "none" | cause
  quic,          \* "open" | "closed"
  wpc,           \* worker: "loop" | "failing" | "closedquic" | "resultset" | "done"
  cause          \* the cause that made the worker leave its loop

peerV == <<opened, pre, dgSent>>
workV == <<pulled, tasks, h3q, dgSlot>>
chanV == <<chUni, chBi, chDg>>
appV == <<cs, lockUni, lockBi, delivered, refused, dgGot, cancels>>
endV == <<result, quic, wpc, cause>>
vars == <<peerV, workV, chanV, appV, endV>>

SeqToSet(s) == { s[i] : i \in 1..Len(s) }
KindOf(s) == IF s \in Uni THEN "uni" ELSE "bi"
TasksOf(kind) == { s \in tasks : KindOf(s) = kind }
Ch(kind) == IF kind = "uni" THEN chUni ELSE chBi

FreeH3(kind) == (IF kind = "uni" THEN CapUniH3 ELSE CapBiH3) - Cardinality(TasksOf(kind)) - Len(h3q[kind])
FreeWT(kind) == (IF kind = "uni" THEN CapUniWT ELSE CapBiWT) - Cardinality(TasksOf(kind)) - Len(Ch(kind))

Init ==
  /\ opened = <<>> /\ pre = {} /\ dgSent = 0
  /\ pulled = {} /\ tasks = {} /\ h3q = [k \in {"uni", "bi"} |-> <<>>] /\ dgSlot = 0
  /\ chUni = <<>> /\ chBi = <<>> /\ chDg = 0
  /\ cs = [c \in Callers |-> "idle"] /\ lockUni = {} /\ lockBi = {}
  /\ delivered = {} /\ refused = {} /\ dgGot = 0 /\ cancels = 0
  /\ result = "none" /\ quic = "open" /\ wpc = "loop" /\ cause = "none"

(* ------------------------------- peer ---------------------------------- *)
PeerOpen(s) ==
  /\ quic = "open" /\ s \notin SeqToSet(opened)
  /\ opened' = Append(opened, s)
  /\ UNCHANGED <<pre, dgSent, workV, chanV, appV, endV>>

\* QUIC opens the streams of one kind in id order (an assumption on the environment, used by the
\* model-checking configurations; recorded executions are free to contradict it)
InIdOrder(s) == \A t \in Streams : (KindOf(t) = KindOf(s) /\ t < s) => t \in SeqToSet(opened)

PeerPreamble(s) ==
  /\ quic = "open" /\ s \in SeqToSet(opened) /\ s \notin pre
  /\ pre' = pre \cup {s}
  /\ UNCHANGED <<opened, dgSent, workV, chanV, appV, endV>>

PeerDgram ==
  /\ quic = "open" /\ dgSent < NDg /\ dgSent' = dgSent + 1
  /\ UNCHANGED <<opened, pre, workV, chanV, appV, endV>>

(* ------------------------------- worker -------------------------------- *)
\* the next stream of a kind waiting in quinn's accept queue (0: none)
NextOf(kind) ==
  LET cand == { i \in 1..Len(opened) : KindOf(opened[i]) = kind /\ opened[i] \notin pulled } IN
  IF cand = {} THEN 0 ELSE opened[CHOOSE i \in cand : \A j \in cand : i <= j]

\* one completed poll of the accept_uni / accept_bi branch: both permits held and a stream pulled
WAccept(kind) ==
  /\ wpc = "loop" /\ quic = "open"
  /\ FreeH3(kind) >= 1 /\ FreeWT(kind) >= 1
  /\ NextOf(kind) # 0
  /\ LET s == NextOf(kind) IN pulled' = pulled \cup {s} /\ tasks' = tasks \cup {s}
  /\ UNCHANGED <<h3q, dgSlot, peerV, chanV, appV, endV>>

\* the per-stream task ends the way `how` says
TaskDoneAs(s, how) ==
  /\ s \in tasks
  /\ tasks' = tasks \ {s}
  /\ CASE how \in {"wt", "foreign"} ->
            /\ s \in pre
            /\ IF s \in Uni THEN chUni' = Append(chUni, s) /\ UNCHANGED chBi
               ELSE chBi' = Append(chBi, s) /\ UNCHANGED chUni
            /\ UNCHANGED h3q
       [] how \in {"h3", "bad"} ->
            /\ s \in pre
            /\ h3q' = [h3q EXCEPT ![KindOf(s)] = Append(@, s)]
            /\ UNCHANGED <<chUni, chBi>>
       [] how = "junk" -> UNCHANGED <<h3q, chUni, chBi>>
  /\ UNCHANGED <<pulled, dgSlot, chDg, peerV, appV, endV>>

TaskDone(s) == s \notin Stalled /\ TaskDoneAs(s, ClassOf[s])

\* the stream's read fails when the connection goes away: the task ends, permits return
TaskIoError(s) == quic = "closed" /\ TaskDoneAs(s, "junk")

\* the loop takes an item from its internal queue; an Err item makes it leave with that error
WHandleH3As(kind, bad) ==
  /\ wpc = "loop" /\ h3q[kind] # <<>>
  /\ h3q' = [h3q EXCEPT ![kind] = Tail(@)]
  /\ IF bad THEN cause' = "proto" /\ wpc' = "failing" /\ UNCHANGED <<result, quic>>
     ELSE UNCHANGED endV
  /\ UNCHANGED <<pulled, tasks, dgSlot, peerV, chanV, appV>>

WHandleH3(kind) == h3q[kind] # <<>> /\ WHandleH3As(kind, ClassOf[Head(h3q[kind])] = "bad")

WAcceptDg ==
  /\ wpc = "loop" /\ quic = "open"
  /\ chDg < CapDg /\ dgSlot < dgSent
  /\ dgSlot' = dgSlot + 1 /\ chDg' = chDg + 1
  /\ UNCHANGED <<pulled, tasks, h3q, chUni, chBi, peerV, appV, endV>>

(* ----------------------------- application ----------------------------- *)
Call(c) ==
  /\ cs[c] = "idle" /\ cs' = [cs EXCEPT ![c] = "lock"]
  /\ UNCHANGED <<lockUni, lockBi, delivered, refused, dgGot, cancels, peerV, workV, chanV, endV>>

Lock(c) ==
  /\ cs[c] = "lock"
  /\ IF Wants[c] = "uni" THEN lockUni = {} /\ lockUni' = {c} /\ UNCHANGED lockBi
     ELSE lockBi = {} /\ lockBi' = {c} /\ UNCHANGED lockUni
  /\ cs' = [cs EXCEPT ![c] = "recv"]
  /\ UNCHANGED <<delivered, refused, dgGot, cancels, peerV, workV, chanV, endV>>

\* recv yields a stream: deliver it if it names the caller's session, otherwise stop it and loop
RecvAs(c, match) ==
  /\ cs[c] = "recv"
  /\ IF Wants[c] = "uni" THEN
       /\ chUni # <<>> /\ lockUni = {c}
       /\ chUni' = Tail(chUni) /\ UNCHANGED chBi
       /\ IF ~match
          THEN refused' = refused \cup {Head(chUni)} /\ UNCHANGED <<delivered, cs, lockUni>>
          ELSE /\ delivered' = delivered \cup {<<c, Head(chUni)>>} /\ UNCHANGED refused
               /\ cs' = [cs EXCEPT ![c] = "idle"] /\ lockUni' = {}
       /\ UNCHANGED lockBi
     ELSE
       /\ chBi # <<>> /\ lockBi = {c}
       /\ chBi' = Tail(chBi) /\ UNCHANGED chUni
       /\ IF ~match
          THEN refused' = refused \cup {Head(chBi)} /\ UNCHANGED <<delivered, cs, lockBi>>
          ELSE /\ delivered' = delivered \cup {<<c, Head(chBi)>>} /\ UNCHANGED refused
               /\ cs' = [cs EXCEPT ![c] = "idle"] /\ lockBi' = {}
       /\ UNCHANGED lockUni
  /\ UNCHANGED <<chDg, dgGot, cancels, peerV, workV, endV>>

Recv(c) ==
  /\ cs[c] = "recv" /\ Ch(Wants[c]) # <<>>
  /\ RecvAs(c, ClassOf[Head(Ch(Wants[c]))] # "foreign")

\* the future is dropped while waiting for the mutex or inside recv: nothing is taken
Cancel(c) ==
  /\ cs[c] \in {"lock", "recv"} /\ cancels < MaxCancels
  /\ cancels' = cancels + 1
  /\ cs' = [cs EXCEPT ![c] = "idle"]
  /\ lockUni' = lockUni \ {c}
  /\ lockBi' = lockBi \ {c}
  /\ UNCHANGED <<delivered, refused, dgGot, peerV, workV, chanV, endV>>

RecvDg ==
  /\ chDg > 0 /\ chDg' = chDg - 1 /\ dgGot' = dgGot + 1
  /\ UNCHANGED <<chUni, chBi, cs, lockUni, lockBi, delivered, refused, cancels, peerV, workV, endV>>

(* ----------------------------- termination ----------------------------- *)
\* a cause arises; "peer" and "local" mean QUIC is closed already, "proto", "session" (the peer ended
\* the session: capsule / FIN) and "handles" are the worker's own decision
Arise(k) ==
  /\ wpc = "loop" /\ cause = "none"
  /\ cause' = k /\ wpc' = "failing"
  /\ quic' = IF k \in {"peer", "local"} THEN "closed" ELSE quic
  /\ UNCHANGED <<result, peerV, workV, chanV, appV>>

WCloseQuic ==
  /\ wpc = "failing" /\ wpc' = "closedquic" /\ quic' = "closed"
  /\ UNCHANGED <<result, cause, peerV, workV, chanV, appV>>

ResultSet ==
  /\ wpc = "closedquic" /\ wpc' = "resultset" /\ result' = cause
  /\ UNCHANGED <<quic, cause, peerV, workV, chanV, appV>>

DropSenders ==
  /\ wpc = "resultset" /\ wpc' = "done"
  /\ UNCHANGED <<result, quic, cause, peerV, workV, chanV, appV>>

\* a receiver sees its queue closed (all senders gone: the worker's and every task's permit) and empty
QueueClosed(kind) == wpc = "done" /\ TasksOf(kind) = {}
RecvClosed(c) ==
  /\ cs[c] = "recv"
  /\ Ch(Wants[c]) = <<>> /\ QueueClosed(Wants[c])
  /\ cs' = [cs EXCEPT ![c] = "err"]
  /\ lockUni' = lockUni \ {c}
  /\ lockBi' = lockBi \ {c}
  /\ UNCHANGED <<delivered, refused, dgGot, cancels, peerV, workV, chanV, endV>>

Next ==
  \/ \E s \in Streams : (PeerOpen(s) /\ InIdOrder(s)) \/ (s \notin Stalled /\ PeerPreamble(s)) \/ TaskDone(s) \/ TaskIoError(s)
  \/ PeerDgram \/ WAccept("uni") \/ WAccept("bi") \/ WHandleH3("uni") \/ WHandleH3("bi") \/ WAcceptDg \/ RecvDg
  \/ \E c \in Callers : Call(c) \/ Lock(c) \/ Recv(c) \/ Cancel(c) \/ RecvClosed(c)
  \/ \E k \in Causes : Arise(k)
  \/ WCloseQuic \/ ResultSet \/ DropSenders

Fairness ==
  /\ WF_vars(WAccept("uni")) /\ WF_vars(WAccept("bi")) /\ WF_vars(WAcceptDg) /\ WF_vars(RecvDg)
  /\ WF_vars(WHandleH3("uni")) /\ WF_vars(WHandleH3("bi"))
  /\ \A s \in Streams : WF_vars(PeerOpen(s) /\ InIdOrder(s)) /\ WF_vars(TaskDone(s)) /\ WF_vars(TaskIoError(s))
  /\ \A s \in Streams \ Stalled : WF_vars(PeerPreamble(s))
  /\ WF_vars(PeerDgram)
  /\ \A c \in Callers : WF_vars(Call(c)) /\ SF_vars(Lock(c)) /\ WF_vars(Recv(c)) /\ WF_vars(RecvClosed(c))
  /\ WF_vars(WCloseQuic) /\ WF_vars(ResultSet) /\ WF_vars(DropSenders)

Spec == Init /\ [][Next]_vars /\ Fairness

(* ---------------------------- C08: exactly once ------------------------ *)
DeliveredStreams == { d[2] : d \in delivered }
InQueues == SeqToSet(chUni) \cup SeqToSet(chBi) \cup SeqToSet(h3q["uni"]) \cup SeqToSet(h3q["bi"])
\* structural part: holds of every execution, recorded ones included
OnePlace ==
  /\ \A d1, d2 \in delivered : d1[2] = d2[2] => d1 = d2                 \* never duplicated
  /\ DeliveredStreams \subseteq (SeqToSet(opened) \cap pre)             \* never invented
  /\ \A s \in tasks : s \notin InQueues \cup DeliveredStreams \cup refused
  /\ DeliveredStreams \cap refused = {}
  /\ \A i, j \in 1..Len(chUni) : chUni[i] = chUni[j] => i = j
  /\ \A i, j \in 1..Len(chBi) : chBi[i] = chBi[j] => i = j
Foreign == { s \in Streams : ClassOf[s] = "foreign" }
ExactlyOnce ==
  /\ OnePlace
  /\ DeliveredStreams \cap Foreign = {}                                  \* never foreign (C17)
  /\ refused \subseteq Foreign
  \* never lost: a WebTransport stream is in exactly one place
  /\ \A s \in pulled : ClassOf[s] \in {"wt", "foreign"} =>
        (s \in tasks) \/ (s \in InQueues) \/ s \in DeliveredStreams \/ s \in refused \/ (quic = "closed")
PermitsSane == FreeH3("uni") >= 0 /\ FreeWT("uni") >= 0 /\ FreeH3("bi") >= 0 /\ FreeWT("bi") >= 0 /\ chDg <= CapDg

(* ------------------------ C09: the result comes first ------------------ *)
\* no receiver can observe a closed queue before the shared result is set (Driver::result never panics)
ResultBeforeClose == (\E c \in Callers : cs[c] = "err") => result # "none"
CauseNotMisattributed == result # "none" => result = cause

(* ----------------------- C07: independence (liveness) ------------------ *)
Healthy == { s \in Streams \ Stalled : ClassOf[s] = "wt" }
\* with callers that keep accepting, every healthy stream is eventually delivered, unless the connection ends
AllHealthyDelivered == <>(Healthy \subseteq DeliveredStreams \/ cause # "none")
DatagramsFlow == <>(dgGot = NDg \/ cause # "none")
Terminates == (cause # "none") ~> (wpc = "done" /\ tasks = {})
=============================================================================
