------------------------------- MODULE Driver -------------------------------
(***************************************************************************)
(* The concurrency mechanism of wtransport/src/driver/mod.rs, one action   *)
(* per await-free segment of the code:                                     *)
(*                                                                         *)
(*  peer      opens streams (quinn accept queues, id order), sends each    *)
(*            stream's preamble or stalls before completing it, sends      *)
(*            datagrams, may close the connection                          *)
(*  worker    select! loop: accept_uni / accept_bi take ONE permit of the  *)
(*            internal h3 queue and ONE of the application-facing wt queue *)
(*            BEFORE pulling the next stream from quinn, then spawn a task *)
(*            per stream that holds both permits until the preamble has    *)
(*            been parsed; accept_datagram reserves the (capacity 1)       *)
(*            datagram slot before reading a datagram                      *)
(*  tasks     TaskDone(s): preamble parsed -> the wt permit becomes a      *)
(*            queued stream, the h3 permit is returned                     *)
(*  app       callers take the receiver mutex, recv, filter by session,    *)
(*            release; a pending call can be cancelled at any point        *)
(*  end       a cause (peer close, local close, protocol error, all        *)
(*            handles dropped) makes the worker leave its loop: it closes  *)
(*            QUIC, SETS THE SHARED RESULT, and only then drops its queue  *)
(*            senders; receivers that find a closed queue read the result  *)
(*                                                                         *)
(* Capacities are CONSTANTS (fed from the running code through the         *)
(* wtransport_verif hook).                                                 *)
(***************************************************************************)
EXTENDS Naturals, Sequences, FiniteSets, TLC

CONSTANTS
  Uni, Bi,            \* stream identifiers the peer may open, by kind
  Stalled,            \* subset of Uni \cup Bi whose preamble never completes
  Foreign,            \* subset naming another session
  CapUniH3, CapUniWT, CapBiH3, CapBiWT, CapDg,
  Callers,            \* application tasks calling accept_uni / accept_bi
  Wants,              \* Wants[c]: "uni" | "bi" - what caller c accepts
  NDg,                \* datagrams the peer sends
  Causes              \* termination causes that may occur ({} = none)

Streams == Uni \cup Bi

VARIABLES
  opened,        \* streams the peer has opened (sequence, id order) - quinn's accept queues hold the not-yet-pulled ones
  pulled,        \* streams the worker has pulled from quinn
  pre,           \* streams whose preamble bytes have all arrived
  tasks,         \* streams whose per-stream task is running (holding both permits)
  chUni, chBi,   \* application-facing queues (sequences of streams)
  dgSent, dgSlot, chDg, dgGot,
  cs,            \* cs[c]: "idle" | "lock" (waiting for the receiver mutex) | "recv" (holding it) | "err"
  want,          \* want[c]: "uni" | "bi"
  lockUni, lockBi,
  delivered,     \* set of <<caller, stream>>
  refused,       \* foreign streams stopped by the filter
  result,        \* "none" | cause
  quic,          \* "open" | "closed"
  wpc,           \* worker: "loop" | "failing" | "closedquic" | "resultset" | "done"
  cause,         \* the cause that made the worker leave its loop
  cancels        \* number of cancellations so far (bounded exploration)

vars == <<opened, pulled, pre, tasks, chUni, chBi, dgSent, dgSlot, chDg, dgGot, cs, want,
          lockUni, lockBi, delivered, refused, result, quic, wpc, cause, cancels>>

SeqToSet(s) == { s[i] : i \in 1..Len(s) }
KindOf(s) == IF s \in Uni THEN "uni" ELSE "bi"

FreeH3(kind) ==
  IF kind = "uni" THEN CapUniH3 - Cardinality({ s \in tasks : s \in Uni })
  ELSE CapBiH3 - Cardinality({ s \in tasks : s \in Bi })
FreeWT(kind) ==
  IF kind = "uni" THEN CapUniWT - Cardinality({ s \in tasks : s \in Uni }) - Len(chUni)
  ELSE CapBiWT - Cardinality({ s \in tasks : s \in Bi }) - Len(chBi)

Init ==
  /\ opened = <<>> /\ pulled = {} /\ pre = {} /\ tasks = {}
  /\ chUni = <<>> /\ chBi = <<>>
  /\ dgSent = 0 /\ dgSlot = 0 /\ chDg = 0 /\ dgGot = 0
  /\ cs = [c \in Callers |-> "idle"] /\ want = Wants
  /\ lockUni = "free" /\ lockBi = "free"
  /\ delivered = {} /\ refused = {}
  /\ result = "none" /\ quic = "open" /\ wpc = "loop" /\ cause = "none" /\ cancels = 0

(* ------------------------------- peer ---------------------------------- *)
PeerOpen(s) ==
  /\ quic = "open" /\ s \notin SeqToSet(opened)
  \* streams of one kind are opened in id order
  /\ \A t \in Streams : (KindOf(t) = KindOf(s) /\ t < s) => t \in SeqToSet(opened)
  /\ opened' = Append(opened, s)
  /\ UNCHANGED <<pulled, pre, tasks, chUni, chBi, dgSent, dgSlot, chDg, dgGot, cs, want, lockUni, lockBi,
                 delivered, refused, result, quic, wpc, cause, cancels>>

PeerPreamble(s) ==
  /\ quic = "open" /\ s \in SeqToSet(opened) /\ s \notin pre /\ s \notin Stalled
  /\ pre' = pre \cup {s}
  /\ UNCHANGED <<opened, pulled, tasks, chUni, chBi, dgSent, dgSlot, chDg, dgGot, cs, want, lockUni, lockBi,
                 delivered, refused, result, quic, wpc, cause, cancels>>

PeerDgram ==
  /\ quic = "open" /\ dgSent < NDg /\ dgSent' = dgSent + 1
  /\ UNCHANGED <<opened, pulled, pre, tasks, chUni, chBi, dgSlot, chDg, dgGot, cs, want, lockUni, lockBi,
                 delivered, refused, result, quic, wpc, cause, cancels>>

(* ------------------------------- worker -------------------------------- *)
\* one completed poll of the accept_uni / accept_bi branch: both permits free and a stream waiting
NextOf(kind) ==
  LET cand == { i \in 1..Len(opened) : KindOf(opened[i]) = kind /\ opened[i] \notin pulled } IN
  IF cand = {} THEN 0 ELSE opened[CHOOSE i \in cand : \A j \in cand : i <= j]

WAccept(kind) ==
  /\ wpc = "loop" /\ quic = "open"
  /\ FreeH3(kind) >= 1 /\ FreeWT(kind) >= 1
  /\ NextOf(kind) # 0
  /\ LET s == NextOf(kind) IN pulled' = pulled \cup {s} /\ tasks' = tasks \cup {s}
  /\ UNCHANGED <<opened, pre, chUni, chBi, dgSent, dgSlot, chDg, dgGot, cs, want, lockUni, lockBi,
                 delivered, refused, result, quic, wpc, cause, cancels>>

TaskDone(s) ==
  /\ s \in tasks /\ s \in pre
  /\ tasks' = tasks \ {s}
  /\ IF s \in Uni THEN chUni' = Append(chUni, s) /\ UNCHANGED chBi
     ELSE chBi' = Append(chBi, s) /\ UNCHANGED chUni
  /\ UNCHANGED <<opened, pulled, pre, dgSent, dgSlot, chDg, dgGot, cs, want, lockUni, lockBi,
                 delivered, refused, result, quic, wpc, cause, cancels>>

\* the stream's read fails when the connection goes away: the task ends, permits return
TaskIoError(s) ==
  /\ s \in tasks /\ quic = "closed"
  /\ tasks' = tasks \ {s}
  /\ UNCHANGED <<opened, pulled, pre, chUni, chBi, dgSent, dgSlot, chDg, dgGot, cs, want, lockUni, lockBi,
                 delivered, refused, result, quic, wpc, cause, cancels>>

WAcceptDg ==
  /\ wpc = "loop" /\ quic = "open"
  /\ chDg < CapDg /\ dgSlot < dgSent
  /\ dgSlot' = dgSlot + 1 /\ chDg' = chDg + 1
  /\ UNCHANGED <<opened, pulled, pre, tasks, chUni, chBi, dgSent, dgGot, cs, want, lockUni, lockBi,
                 delivered, refused, result, quic, wpc, cause, cancels>>

(* ----------------------------- application ----------------------------- *)
Call(c) ==
  /\ cs[c] = "idle" /\ cs' = [cs EXCEPT ![c] = "lock"]
  /\ UNCHANGED <<opened, pulled, pre, tasks, chUni, chBi, dgSent, dgSlot, chDg, dgGot, want, lockUni, lockBi,
                 delivered, refused, result, quic, wpc, cause, cancels>>

Lock(c) ==
  /\ cs[c] = "lock"
  /\ IF want[c] = "uni" THEN lockUni = "free" /\ lockUni' = c /\ UNCHANGED lockBi
     ELSE lockBi = "free" /\ lockBi' = c /\ UNCHANGED lockUni
  /\ cs' = [cs EXCEPT ![c] = "recv"]
  /\ UNCHANGED <<opened, pulled, pre, tasks, chUni, chBi, dgSent, dgSlot, chDg, dgGot, want,
                 delivered, refused, result, quic, wpc, cause, cancels>>

\* recv yields a stream: deliver it if it names the live session, otherwise stop it and loop
Recv(c) ==
  /\ cs[c] = "recv"
  /\ IF want[c] = "uni" THEN
       /\ chUni # <<>>
       /\ chUni' = Tail(chUni) /\ UNCHANGED chBi
       /\ IF Head(chUni) \in Foreign
          THEN refused' = refused \cup {Head(chUni)} /\ UNCHANGED <<delivered, cs, lockUni>>
          ELSE /\ delivered' = delivered \cup {<<c, Head(chUni)>>} /\ UNCHANGED refused
               /\ cs' = [cs EXCEPT ![c] = "idle"] /\ lockUni' = "free"
       /\ UNCHANGED lockBi
     ELSE
       /\ chBi # <<>>
       /\ chBi' = Tail(chBi) /\ UNCHANGED chUni
       /\ IF Head(chBi) \in Foreign
          THEN refused' = refused \cup {Head(chBi)} /\ UNCHANGED <<delivered, cs, lockBi>>
          ELSE /\ delivered' = delivered \cup {<<c, Head(chBi)>>} /\ UNCHANGED refused
               /\ cs' = [cs EXCEPT ![c] = "idle"] /\ lockBi' = "free"
       /\ UNCHANGED lockUni
  /\ UNCHANGED <<opened, pulled, pre, tasks, dgSent, dgSlot, chDg, dgGot, want, result, quic, wpc, cause, cancels>>

\* the future is dropped while waiting for the mutex or inside recv: nothing is taken
Cancel(c) ==
  /\ cs[c] \in {"lock", "recv"} /\ cancels < 2
  /\ cancels' = cancels + 1
  /\ cs' = [cs EXCEPT ![c] = "idle"]
  /\ lockUni' = IF lockUni = c THEN "free" ELSE lockUni
  /\ lockBi' = IF lockBi = c THEN "free" ELSE lockBi
  /\ UNCHANGED <<opened, pulled, pre, tasks, chUni, chBi, dgSent, dgSlot, chDg, dgGot, want,
                 delivered, refused, result, quic, wpc, cause>>

RecvDg ==
  /\ chDg > 0 /\ chDg' = chDg - 1 /\ dgGot' = dgGot + 1
  /\ UNCHANGED <<opened, pulled, pre, tasks, chUni, chBi, dgSent, dgSlot, cs, want, lockUni, lockBi,
                 delivered, refused, result, quic, wpc, cause, cancels>>

(* ----------------------------- termination ----------------------------- *)
\* a cause arises; "peer" and "local" close QUIC themselves, "proto" and "handles" are the worker's own
Arise(k) ==
  /\ wpc = "loop" /\ k \in Causes /\ cause = "none"
  /\ cause' = k /\ wpc' = "failing"
  /\ quic' = IF k \in {"peer", "local"} THEN "closed" ELSE quic
  /\ UNCHANGED <<opened, pulled, pre, tasks, chUni, chBi, dgSent, dgSlot, chDg, dgGot, cs, want, lockUni, lockBi,
                 delivered, refused, result, cancels>>

WCloseQuic ==
  /\ wpc = "failing" /\ wpc' = "closedquic" /\ quic' = "closed"
  /\ UNCHANGED <<opened, pulled, pre, tasks, chUni, chBi, dgSent, dgSlot, chDg, dgGot, cs, want, lockUni, lockBi,
                 delivered, refused, result, cause, cancels>>

ResultSet ==
  /\ wpc = "closedquic" /\ wpc' = "resultset" /\ result' = cause
  /\ UNCHANGED <<opened, pulled, pre, tasks, chUni, chBi, dgSent, dgSlot, chDg, dgGot, cs, want, lockUni, lockBi,
                 delivered, refused, quic, cause, cancels>>

DropSenders ==
  /\ wpc = "resultset" /\ wpc' = "done"
  /\ UNCHANGED <<opened, pulled, pre, tasks, chUni, chBi, dgSent, dgSlot, chDg, dgGot, cs, want, lockUni, lockBi,
                 delivered, refused, result, quic, cause, cancels>>

\* a receiver sees its queue closed (all senders gone: the worker's and every task's permit) and empty
QueueClosed(kind) == wpc = "done" /\ { s \in tasks : KindOf(s) = kind } = {}
RecvClosed(c) ==
  /\ cs[c] = "recv"
  /\ IF want[c] = "uni" THEN chUni = <<>> /\ QueueClosed("uni") ELSE chBi = <<>> /\ QueueClosed("bi")
  /\ cs' = [cs EXCEPT ![c] = "err"]
  /\ lockUni' = IF lockUni = c THEN "free" ELSE lockUni
  /\ lockBi' = IF lockBi = c THEN "free" ELSE lockBi
  /\ UNCHANGED <<opened, pulled, pre, tasks, chUni, chBi, dgSent, dgSlot, chDg, dgGot, want,
                 delivered, refused, result, quic, wpc, cause, cancels>>

Next ==
  \/ \E s \in Streams : PeerOpen(s) \/ PeerPreamble(s) \/ TaskDone(s) \/ TaskIoError(s)
  \/ PeerDgram \/ WAccept("uni") \/ WAccept("bi") \/ WAcceptDg \/ RecvDg
  \/ \E c \in Callers : Call(c) \/ Lock(c) \/ Recv(c) \/ Cancel(c) \/ RecvClosed(c)
  \/ \E k \in Causes : Arise(k)
  \/ WCloseQuic \/ ResultSet \/ DropSenders

Fairness ==
  /\ WF_vars(WAccept("uni")) /\ WF_vars(WAccept("bi")) /\ WF_vars(WAcceptDg) /\ WF_vars(RecvDg)
  /\ \A s \in Streams : WF_vars(PeerOpen(s)) /\ WF_vars(TaskDone(s)) /\ WF_vars(TaskIoError(s))
  /\ \A s \in Streams \ Stalled : WF_vars(PeerPreamble(s))
  /\ WF_vars(PeerDgram)
  /\ \A c \in Callers : WF_vars(Call(c)) /\ SF_vars(Lock(c)) /\ WF_vars(Recv(c)) /\ WF_vars(RecvClosed(c))
  /\ WF_vars(WCloseQuic) /\ WF_vars(ResultSet) /\ WF_vars(DropSenders)

Spec == Init /\ [][Next]_vars /\ Fairness

(* ---------------------------- C08: exactly once ------------------------ *)
DeliveredStreams == { d[2] : d \in delivered }
ExactlyOnce ==
  /\ \A d1, d2 \in delivered : d1[2] = d2[2] => d1 = d2                 \* never duplicated
  /\ DeliveredStreams \subseteq (SeqToSet(opened) \cap pre)             \* never invented
  /\ DeliveredStreams \cap Foreign = {}                                  \* never foreign (C17)
  /\ refused \subseteq Foreign
  \* never lost: a stream is in exactly one place
  /\ \A s \in pulled : (s \in tasks) \/ (s \in SeqToSet(chUni) \cup SeqToSet(chBi))
                        \/ s \in DeliveredStreams \/ s \in refused \/ (quic = "closed")
  /\ \A s \in tasks : s \notin SeqToSet(chUni) \cup SeqToSet(chBi) \cup DeliveredStreams
PermitsSane == FreeH3("uni") >= 0 /\ FreeWT("uni") >= 0 /\ FreeH3("bi") >= 0 /\ FreeWT("bi") >= 0 /\ chDg <= CapDg

(* ------------------------ C09: the result comes first ------------------ *)
\* no receiver can observe a closed queue before the shared result is set (Driver::result never panics)
ResultBeforeClose == (\E c \in Callers : cs[c] = "err") => result # "none"
CauseNotMisattributed == result # "none" => result = cause

(* ----------------------- C07: independence (liveness) ------------------ *)
Healthy == (Streams \ Stalled) \ Foreign
\* with callers that keep accepting, every healthy stream is eventually delivered, unless the connection ends
AllHealthyDelivered == <>(Healthy \subseteq DeliveredStreams \/ cause # "none")
DatagramsFlow == <>(dgGot = NDg \/ cause # "none")
\* once a cause has arisen every caller that calls again ends in an error
Terminates == (cause # "none") ~> (wpc = "done" /\ tasks = {})
=============================================================================
