-------------------------------- MODULE Hist --------------------------------
(***************************************************************************)
(* Operators over a scenario history (a sequence of event records).        *)
(***************************************************************************)
EXTENDS Naturals, Sequences, FiniteSets, SequencesExt

Has(e, f) == f \in DOMAIN e
Idx(h) == 1..Len(h)

IsEv(e, src, ev) == e.src = src /\ e.ev = ev
IsOp(e, who, op) == e.src = who /\ e.ev = "op_done" /\ Has(e, "op") /\ e.op = op

\* indices of events satisfying P
Where(h, P(_)) == { i \in Idx(h) : P(h[i]) }

\* concatenation of the "bytes" fields of the selected events, in order
RECURSIVE CatBytes(_, _)
CatBytes(h, idxSeq) ==
  IF idxSeq = <<>> THEN <<>> ELSE h[Head(idxSeq)].bytes \o CatBytes(h, Tail(idxSeq))

SortedSeq(S) == SetToSortSeq(S, <)

Meta(h) == h[1].meta
=============================================================================
