-------------------------------- MODULE Hist --------------------------------
(***************************************************************************)
(* Operators over a scenario history (a sequence of event records).        *)
(***************************************************************************)
EXTENDS Naturals, Sequences, FiniteSets, SequencesExt

Has(e, f) == f \in DOMAIN e
Idx(h) == 1..Len(h)

IsEv(e, src, ev) == e.src = src /\ e.ev = ev
IsOp(e, who, op) == e.src = who /\ e.ev = "op_done" /\ Has(e, "op") /\ e.op = op

\* indices of events satisfying P
Where(h, P(_)) == { i \in Idx(h) : P(h[i]) }

\* concatenation of the "bytes" fields of the selected events, in order
RECURSIVE CatBytes(_, _)
CatBytes(h, idxSeq) ==
  IF idxSeq = <<>> THEN <<>> ELSE h[Head(idxSeq)].bytes \o CatBytes(h, Tail(idxSeq))

SortedSeq(S) == SetToSortSeq(S, <)

Meta(h) == h[1].meta

\* the position-determined payload pattern the harness writes (0-based position)
Pat(i, salt) == (i * 31 + 7 + salt * 13) % 251
Pattern(len, salt) == [j \in 1..len |-> Pat(j - 1, salt)]

\* does a logged data summary (len + bytes, or len + head/tail) equal `hdr \o Pattern(plen, salt)`?
ExpAt(hdr, salt, k) == IF k <= Len(hdr) THEN hdr[k] ELSE Pat(k - Len(hdr) - 1, salt)
DataIs(e, hdr, plen, salt) ==
  LET total == Len(hdr) + plen IN
  /\ e.len = total
  /\ IF Has(e, "bytes") THEN e.bytes = [k \in 1..total |-> ExpAt(hdr, salt, k)]
     ELSE /\ e.head = [k \in 1..16 |-> ExpAt(hdr, salt, k)]
          /\ e.tail = [k \in 1..16 |-> ExpAt(hdr, salt, total - 16 + k)]

\* sum of f over a set of indices
RECURSIVE SumOver(_, _, _)
SumOver(h, idxSeq, field) ==
  IF idxSeq = <<>> THEN 0 ELSE h[Head(idxSeq)][field] + SumOver(h, Tail(idxSeq), field)
=============================================================================
