----------------------------- MODULE StreamPipe -----------------------------
(***************************************************************************)
(* One WebTransport stream direction, shaped like the code path:           *)
(*   sender:   the opening future writes the preamble (type/signal varint  *)
(*             + session-id varint), then the application writes payload   *)
(*             in chunks and finishes;                                     *)
(*   network:  delivers the byte stream to the receiver in arbitrary       *)
(*             segments (every cut position, also inside the preamble);    *)
(*   receiver: a per-stream task reads the preamble with the exact-read    *)
(*             discipline of GetVarint (one byte, then exactly the rest    *)
(*             of that varint), then hands the raw stream to the           *)
(*             application, which reads with arbitrary buffer sizes.       *)
(* Invariants: the application sees a prefix of the payload, never a       *)
(* preamble byte, never loses a payload byte, and sees end-of-stream only  *)
(* after everything (C01).                                                 *)
(***************************************************************************)
EXTENDS Naturals, Sequences, FiniteSets, Wire

CONSTANTS Preambles,    \* set of preamble byte strings (type varint ++ sid varint)
          MaxPayload1,  \* payload length bound
          Bytes         \* payload alphabet (chosen to collide with preamble bytes)

VARIABLES pre,          \* the preamble chosen for this behaviour
          payload,      \* bytes the application has written so far
          finished,     \* sender finished
          wire,         \* bytes put on the wire so far (preamble ++ payload)
          arrived,      \* number of wire bytes that reached the receiver's QUIC buffer
          finArrived,
          taken,        \* number of wire bytes consumed from that buffer
          phase,        \* "type1" | "typeN" | "sid1" | "sidN" | "app"
          need,         \* bytes still missing for the current varint
          got,          \* bytes delivered to the application
          eof           \* the application observed end-of-stream

vars == <<pre, payload, finished, wire, arrived, finArrived, taken, phase, need, got, eof>>

Init ==
  /\ pre \in Preambles
  /\ payload = <<>> /\ finished = FALSE
  /\ wire = pre
  /\ arrived = 0 /\ finArrived = FALSE /\ taken = 0
  /\ phase = "type1" /\ need = 1 /\ got = <<>> /\ eof = FALSE

AppWrite ==
  /\ ~finished /\ Len(payload) < MaxPayload1
  /\ \E b \in Bytes : payload' = Append(payload, b) /\ wire' = Append(wire, b)
  /\ UNCHANGED <<pre, finished, arrived, finArrived, taken, phase, need, got, eof>>

AppFinish ==
  /\ ~finished /\ finished' = TRUE
  /\ UNCHANGED <<pre, payload, wire, arrived, finArrived, taken, phase, need, got, eof>>

NetDeliver ==
  /\ arrived < Len(wire)
  /\ \E k \in 1..(Len(wire) - arrived) : arrived' = arrived + k
  /\ UNCHANGED <<pre, payload, finished, wire, finArrived, taken, phase, need, got, eof>>

NetFin ==
  /\ finished /\ arrived = Len(wire) /\ ~finArrived /\ finArrived' = TRUE
  /\ UNCHANGED <<pre, payload, finished, wire, arrived, taken, phase, need, got, eof>>

\* one poll_read of the preamble task: asks for exactly `need` bytes, gets 1..need of them
PreambleRead ==
  /\ phase # "app" /\ arrived > taken
  /\ \E k \in 1..need :
       /\ k <= arrived - taken
       /\ taken' = taken + k
       /\ IF k < need THEN need' = need - k /\ phase' = phase
          ELSE CASE phase = "type1" ->
                      LET n == VarintLen(wire[taken + 1]) IN
                      IF n = 1 THEN phase' = "sid1" /\ need' = 1
                      ELSE phase' = "typeN" /\ need' = n - 1
                 [] phase = "typeN" -> phase' = "sid1" /\ need' = 1
                 [] phase = "sid1" ->
                      LET n == VarintLen(wire[taken + 1]) IN
                      IF n = 1 THEN phase' = "app" /\ need' = 0
                      ELSE phase' = "sidN" /\ need' = n - 1
                 [] phase = "sidN" -> phase' = "app" /\ need' = 0
  /\ UNCHANGED <<pre, payload, finished, wire, arrived, finArrived, got, eof>>

AppRead ==
  /\ phase = "app" /\ ~eof
  /\ \/ /\ arrived > taken
        /\ \E k \in 1..(arrived - taken) :
             /\ got' = got \o SubSeq(wire, taken + 1, taken + k)
             /\ taken' = taken + k
        /\ UNCHANGED eof
     \/ /\ arrived = taken /\ finArrived /\ eof' = TRUE /\ UNCHANGED <<got, taken>>
  /\ UNCHANGED <<pre, payload, finished, wire, arrived, finArrived, phase, need>>

Next == AppWrite \/ AppFinish \/ NetDeliver \/ NetFin \/ PreambleRead \/ AppRead
Spec == Init /\ [][Next]_vars /\ WF_vars(Next)

PrefixOf(a, b) == Len(a) <= Len(b) /\ a = SubSeq(b, 1, Len(a))

Exact == PrefixOf(got, payload)
PreambleInvisible == phase = "app" => taken >= Len(pre) /\ taken - Len(got) = Len(pre)
NoOverRead == phase # "app" => taken <= Len(pre)
EofOnlyAtEnd == eof => finished /\ got = payload
Inv == Exact /\ PreambleInvisible /\ NoOverRead /\ EofOnlyAtEnd

\* once the sender finishes, the application eventually sees everything and then EOF
Complete == finished ~> (eof /\ got = payload)
=============================================================================
