------------------------------ MODULE H3Rules ------------------------------
(***************************************************************************)
(* Connection-level rules of HTTP/3 + WebTransport for an endpoint with an *)
(* established session: what the endpoint must do when the peer opens or   *)
(* continues a stream with given bytes and ends it a given way.            *)
(*   RFC 9114 6.2   unknown unidirectional stream types are not errors;    *)
(*                  streams closed/reset before their type is complete     *)
(*                  must be tolerated; reserved (GREASE) types ignored     *)
(*   RFC 9114 6.2.1 one control stream (second: H3_STREAM_CREATION_ERROR), *)
(*                  closing it: H3_CLOSED_CRITICAL_STREAM; first frame     *)
(*                  SETTINGS, later SETTINGS: H3_FRAME_UNEXPECTED          *)
(*   RFC 9204 4.2   one encoder and one decoder stream each, critical      *)
(*   RFC 9114 7.2   DATA/HEADERS on control, SETTINGS on request streams:  *)
(*                  H3_FRAME_UNEXPECTED; 7.1 truncated frame: FRAME_ERROR  *)
(*   RFC 9114 4.1   DATA before HEADERS on a request stream:               *)
(*                  H3_FRAME_UNEXPECTED; malformed request: stream error   *)
(*   WT draft       0x41/0x54 + session id; invalid id: H3_ID_ERROR;       *)
(*                  unknown session: stream refused with                   *)
(*                  WEBTRANSPORT_BUFFERED_STREAM_REJECTED                  *)
(* Outcome of one stream:                                                  *)
(*   [k |-> "alive"]                 no connection-level effect            *)
(*   [k |-> "close", codes]          connection closed with a code in set  *)
(*   [k |-> "deliver"]               WebTransport stream of the live session*)
(*   [k |-> "foreign"]               WebTransport stream of another session*)
(*   [k |-> "refuse"]                this stream refused, connection alive *)
(*   [k |-> "free"]                  not constrained                        *)
(***************************************************************************)
EXTENDS Integers, Sequences, FiniteSets, Wire, Qpack, Typestate, Admission, Session

E_STREAM_CREATION_ == 259
E_CLOSED_CRITICAL == 260
E_QPACK_DECOMP == 512
E_BUFFERED_REJECTED == 966049156

Alive == [k |-> "alive"]
Close(codes) == [k |-> "close", codes |-> codes]

\* frames on the peer's control stream after its SETTINGS (bytes: continuation only)
RECURSIVE CtrlFrom(_, _, _)
CtrlFrom(bs, i, end) ==
  LET f == FrameAt(bs, i) IN
  IF f.k = "more" THEN
    IF end = "open" THEN Alive
    ELSE IF i > Len(bs) /\ end = "fin" THEN Close({E_CLOSED_CRITICAL})
    ELSE IF end = "reset" THEN Close({E_CLOSED_CRITICAL})
    ELSE Close({E_CLOSED_CRITICAL, E_FRAME})
  ELSE IF f.k = "err" THEN
    IF f.kind = "unknown" THEN [k |-> "free"]
    ELSE Close(IF f.e = "sid" THEN {E_ID, E_UNEXPECTED, E_FRAME} ELSE {E_LOAD})
  ELSE IF f.kind \in {"grease", "unknown"} THEN CtrlFrom(bs, i + f.n, end)
  ELSE IF f.kind \in {"data", "headers", "settings"} THEN Close({E_UNEXPECTED})
  ELSE Close({E_UNEXPECTED, E_FRAME})                       \* 0x41 on the control stream

\* the peer's whole control stream, from its type byte (RFC 9114 6.2.1: SETTINGS is the first
\* frame, anything else is H3_MISSING_SETTINGS; 7.2.4.1: defective SETTINGS is H3_SETTINGS_ERROR)
E_MISSING_SETTINGS == 266
CtrlStream(bs, end) ==
  LET h == StreamHeaderAt(bs, 1) IN
  IF h.k # "ok" \/ h.kind # "control" THEN [k |-> "free"]
  ELSE LET i == 1 + h.n
           f == FrameAt(bs, i) IN
    IF f.k = "more" THEN
      IF end = "open" THEN [k |-> "pending"]      \* no SETTINGS yet: nothing may happen
      ELSE IF end = "fin" /\ i <= Len(bs) THEN Close({E_CLOSED_CRITICAL, E_FRAME})
      ELSE Close({E_CLOSED_CRITICAL})
    ELSE IF f.kind = "unknown" THEN [k |-> "free"]
    ELSE IF f.k = "err" THEN
      Close(IF f.e = "sid" THEN {E_ID, E_UNEXPECTED, E_FRAME, E_MISSING_SETTINGS} ELSE {E_LOAD})
    ELSE IF f.kind = "grease" THEN Close({E_MISSING_SETTINGS})
    ELSE IF f.kind \in {"data", "headers"} THEN Close({E_MISSING_SETTINGS, E_UNEXPECTED})
    ELSE IF f.kind = "wt" THEN Close({E_MISSING_SETTINGS, E_UNEXPECTED, E_FRAME})
    ELSE LET d == SettingDefects(SubSeq(bs, f.pfrom, f.pfrom + f.plen - 1), 1, {}, {}) IN
      IF d # {} THEN Close(d) ELSE CtrlFrom(bs, i + f.n, end)

\* a new unidirectional stream. st: [qenc, qdec] (the control stream exists already)
UniOutcome(bs, end, st, live) ==
  LET h == StreamHeaderAt(bs, 1) IN
  IF h.k = "more" THEN Alive                     \* closed/reset/idle before its type: tolerated
  ELSE IF h.k = "err" THEN
    IF h.e = "sid" THEN Close({E_ID})
    ELSE IF h.type = V(1) THEN [k |-> "free"]     \* push stream: not an "unknown" type
    ELSE Alive                                    \* unknown type: never a connection error
  ELSE IF h.kind = "control" THEN Close({E_STREAM_CREATION_})
  ELSE IF h.kind = "qenc" THEN
    IF st.qenc THEN Close({E_STREAM_CREATION_})
    ELSE IF end \in {"fin", "reset"} THEN Close({E_CLOSED_CRITICAL}) ELSE Alive
  ELSE IF h.kind = "qdec" THEN
    IF st.qdec THEN Close({E_STREAM_CREATION_})
    ELSE IF end \in {"fin", "reset"} THEN Close({E_CLOSED_CRITICAL}) ELSE Alive
  ELSE IF h.kind = "grease" THEN Alive
  ELSE IF h.sid = live THEN [k |-> "deliver"] ELSE [k |-> "foreign"]

UniUpd(bs, st) ==
  LET h == StreamHeaderAt(bs, 1) IN
  IF h.k # "ok" THEN st
  ELSE IF h.kind = "qenc" THEN [st EXCEPT !.qenc = TRUE]
  ELSE IF h.kind = "qdec" THEN [st EXCEPT !.qdec = TRUE]
  ELSE st

\* a new peer-initiated bidirectional stream (server side: a request stream)
RECURSIVE BiFrom(_, _, _, _, _)
BiFrom(bs, i, end, live, seen) ==
  LET f == FrameAt(bs, i) IN
  IF f.k = "more" THEN
    IF end = "fin" /\ i <= Len(bs) THEN Close({E_FRAME})
    ELSE Alive                                   \* nothing (more) to judge yet, or reset
  ELSE IF f.k = "err" THEN
    IF f.kind = "unknown" THEN [k |-> "free"]
    ELSE IF f.e = "sid" THEN Close({E_ID}) ELSE Close({E_LOAD})
  ELSE IF f.kind \in {"grease", "unknown"} THEN BiFrom(bs, i + f.n, end, live, "skip")
  ELSE IF f.kind = "wt" THEN
    IF seen = "skip" THEN [k |-> "free"]
    ELSE IF f.sid = live THEN [k |-> "deliver"] ELSE [k |-> "foreign"]
  ELSE IF f.kind \in {"data", "settings"} THEN Close({E_UNEXPECTED})
  ELSE \* HEADERS
    LET d == SectionDecode(SubSeq(bs, f.pfrom, f.pfrom + f.plen - 1)) IN
    IF d.k = "err" THEN Close({E_QPACK_DECOMP})
    ELSE IF ~d.strict \/ d.ric # 0 \/ d.base # 0 THEN [k |-> "free"]
    ELSE LET pairs == [j \in 1..Len(d.lines) |-> <<d.lines[j].name, d.lines[j].value>>] IN
      IF AdmitRequest(pairs) THEN [k |-> "free"]      \* a second session request
      ELSE [k |-> "refuse"]

BiOutcome(bs, end, live) == BiFrom(bs, 1, end, live, "none")

\* continuation of the established session's CONNECT stream: which code a protocol failure carries
AnyReqCode == {E_UNEXPECTED, E_FRAME, E_CLOSED_CRITICAL, E_LOAD, E_ID, 51}
RECURSIVE ReqCodes(_, _, _)
ReqCodes(bs, i, end) ==
  LET f == FrameAt(bs, i) IN
  IF f.k = "more" THEN
    IF end = "fin" /\ i <= Len(bs) THEN {E_FRAME}            \* RFC 9114 7.1: ends inside a frame
    ELSE AnyReqCode
  ELSE IF f.k = "err" THEN
    IF f.kind = "unknown" THEN AnyReqCode
    ELSE IF f.e = "sid" THEN {E_ID, E_UNEXPECTED} ELSE {E_LOAD}
  ELSE IF f.kind \in {"unknown", "grease", "headers"} THEN ReqCodes(bs, i + f.n, end)
  ELSE IF f.kind \in {"settings", "wt"} THEN {E_UNEXPECTED}   \* RFC 9114 7.2.4; a signal that is not first
  ELSE IF f.kind = "data" THEN
    LET c == CapsuleParse(SubSeq(bs, f.pfrom, f.pfrom + f.plen - 1)) IN
    IF c.k = "none" THEN ReqCodes(bs, i + f.n, end) ELSE AnyReqCode
  ELSE AnyReqCode

ReqOutcome(bs, end) ==
  LET s == SessionOutcome(bs, end) IN
  IF s.k = "alive" THEN Alive
  ELSE IF s.k = "closed" THEN [k |-> "session_closed"]
  ELSE [k |-> "close", codes |-> ReqCodes(bs, 1, end)]
=============================================================================
