------------------------------ MODULE C07Trace ------------------------------
(***************************************************************************)
(* C07: streams the peer leaves stalled (partial preamble; complete         *)
(* preamble then silence; data the application has not read) never prevent  *)
(* healthy streams from being accepted and read by an application that     *)
(* keeps accepting, nor datagrams from being received, nor a clean close.  *)
(* Healthy streams carry tags "h*"; every accept of a healthy stream must   *)
(* succeed and yield that stream's bytes; at least one of the datagrams    *)
(* must arrive; the final close must reach the peer with its code.         *)
(***************************************************************************)
EXTENDS Integers, Sequences, FiniteSets, TLC, Hist, Wire, E2EBase

InSeq(x, sq) == \E k \in 1..Len(sq) : sq[k] = x

HealthyOpens(h) == { i \in Idx(h) : IsEv(h[i], "peer", "peer_open") /\ h[i].res = "ok" /\ InSeq(h[i].tag, Meta(h).healthy) }
AcceptedIds(h) == { h[i].id : i \in { i \in Idx(h) : h[i].src = "app" /\ h[i].ev = "op_done" /\ Has(h[i], "op")
                                         /\ h[i].op \in {"accept_uni", "accept_bi"} /\ h[i].res = "ok" } }
HealthyAccepts(h) == { i \in Idx(h) : h[i].src = "app" /\ h[i].ev = "op_done" /\ Has(h[i], "op")
                          /\ h[i].op \in {"accept_uni", "accept_bi"} /\ Has(h[i], "tag") /\ InSeq(h[i].tag, Meta(h).accepts) }
HealthyReads(h) == { i \in Idx(h) : IsOp(h[i], "app", "read") /\ InSeq(h[i].tag, Meta(h).accepts) }

DgWanted(h) == \E i \in Idx(h) : IsEv(h[i], "peer", "peer_dgram") /\ h[i].res = "ok"
DgGot(h) == \E i \in Idx(h) : IsOp(h[i], "app", "recv_dgram") /\ h[i].res = "ok"

CloseSeen(h) ==
  \A c \in { i \in Idx(h) : IsOp(h[i], "app", "close") } :
    \E i \in Idx(h) : IsEv(h[i], "peer", "peer_closed") /\ h[i].why.k = "ApplicationClosed"
                       /\ h[i].why.code = h[c].code /\ h[i].why.reason = h[c].reason

JudgeC07(h) ==
  /\ HealthyOpens(h) # {}
  \* every healthy stream the peer opened was handed to the application
  /\ \A o \in HealthyOpens(h) : h[o].id \in AcceptedIds(h)
  \* no accept meant for a healthy stream failed or hung
  /\ \A i \in HealthyAccepts(h) : h[i].res = "ok"
  \* and their bytes arrived (3 payload bytes then FIN)
  /\ \A i \in HealthyReads(h) : h[i].end.k = "fin" /\ h[i].len = 3
  /\ (DgWanted(h) => DgGot(h))
  /\ CloseSeen(h)

Spec == Init /\ [][NextJ(JudgeC07)]_vars
=============================================================================
