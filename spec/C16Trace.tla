------------------------------ MODULE C16Trace ------------------------------
(***************************************************************************)
(* C16: everything the endpoint puts on the wire, as recorded verbatim by   *)
(* a raw QUIC peer, decodes under the reference modules: one control       *)
(* stream starting with a single SETTINGS frame that advertises            *)
(* WebTransport, HTTP datagrams and extended CONNECT with a zero-capacity  *)
(* QPACK table; request / response field sections using only static or     *)
(* literal representations with pseudo-headers first; WebTransport streams *)
(* starting with type / signal + session id; datagrams prefixed by the     *)
(* quarter stream id; error codes from the registry; ALPN h3.              *)
(***************************************************************************)
EXTENDS Integers, Sequences, FiniteSets, TLC, Hist, Wire, Qpack, Admission, E2EBase

\* 0 is what QUIC sends when a connection or stream is simply dropped (no HTTP/3 error involved)
Registry == {0, 51, 256, 257, 258, 259, 260, 261, 262, 263, 264, 265, 266, 267, 268, 269, 270, 271, 272,
             512, 513, 514, 966049156, 386759528}

Setup(h) == h[CHOOSE i \in Idx(h) : IsEv(h[i], "harness", "setup_done")]
Sid(h) == Setup(h).app_sid

UniRx(h) == { i \in Idx(h) : IsEv(h[i], "peer", "rx_stream") /\ h[i].dir = "uni" /\ Has(h[i], "bytes") }
KindOf(e) == LET s == StreamHeaderAt(e.bytes, 1) IN IF s.k = "ok" THEN s.kind ELSE s.k

PairOf(lines, name) ==
  LET c == { j \in 1..Len(lines) : lines[j].name = name } IN
  IF Cardinality(c) = 1 THEN lines[CHOOSE j \in c : TRUE].value ELSE <<255>>

\* frames after the first one on the control stream: only reserved types
RECURSIVE OnlyGrease(_, _)
OnlyGrease(bs, i) ==
  IF i > Len(bs) THEN TRUE
  ELSE LET f == FrameAt(bs, i) IN
    IF f.k = "more" THEN TRUE           \* cut by the end of the recording
    ELSE f.k = "ok" /\ f.kind = "grease" /\ OnlyGrease(bs, i + f.n)

ControlOk(e) ==
  LET f == FrameAt(e.bytes, 2) IN
  /\ e.bytes[1] = 0
  /\ f.k = "ok" /\ f.kind = "settings"
  /\ LET sp == SettingsParse(SubSeq(e.bytes, f.pfrom, f.pfrom + f.plen - 1))
         Val(id) == LET c == { j \in 1..Len(sp.pairs) : sp.pairs[j][1] = id } IN
                    IF c = {} THEN <<-1, -1>> ELSE sp.pairs[CHOOSE j \in c : TRUE][2] IN
     /\ sp.k = "ok"
     /\ Val(SET_WT) = V(1) /\ Val(SET_DATAGRAM) = V(1) /\ Val(SET_CONNECT) = V(1)
     /\ Val(SET_QPACK_CAP) \in {V(0), <<-1, -1>>}
     /\ Val(SET_QPACK_BLOCKED) \in {V(0), <<-1, -1>>}
  /\ OnlyGrease(e.bytes, 2 + f.n)

\* a WebTransport stream the endpoint opened: correct type / signal and session id first
WtUniOk(h, e) == LET s == StreamHeaderAt(e.bytes, 1) IN s.k = "ok" /\ s.kind = "wt" => s.sid = Sid(h)
BiRx(h) == { i \in Idx(h) : IsEv(h[i], "peer", "rx_stream") /\ h[i].dir = "bi" /\ ~Has(h[i], "tag") /\ Has(h[i], "bytes") }
WtBiOk(h, e) ==
  LET f == FrameAt(e.bytes, 1) IN
  \/ (f.k = "more" /\ e.end.k \in {"reset", "conn"})
  \/ (f.k = "ok" /\ f.kind = "wt" /\ f.sid = Sid(h))

\* the CONNECT request a client endpoint sent (payload of its HEADERS frame)
RequestOk(h, e) ==
  LET d == SectionDecode(e.bytes)
      url == h[CHOOSE i \in Idx(h) : IsEv(h[i], "app", "connect_returned")].url
      u == UrlParse(url) IN
  /\ e.type = V(1)
  /\ SectionAdmissible(e.bytes)
  /\ PairOf(d.lines, S_method) = S_CONNECT
  /\ PairOf(d.lines, S_scheme) = S_https
  /\ PairOf(d.lines, S_protocol) = S_webtransport
  /\ (u.k = "ok" => PairOf(d.lines, S_authority) = u.authority /\ PairOf(d.lines, S_path) = u.pathq)
  /\ SessionIdOk(e.id)

\* the response a server endpoint sent on the request stream
ResponseOk(h, e) ==
  LET f == FrameAt(e.bytes, 1)
      d == SectionDecode(SubSeq(e.bytes, f.pfrom, f.pfrom + f.plen - 1))
      dec == h[CHOOSE i \in Idx(h) : IsEv(h[i], "app", "server_decided")].d
      want == CASE dec \in {"accept", "accept_headers"} -> <<50, 48, 48>>
                [] dec = "forbidden" -> <<52, 48, 51>>
                [] dec = "not_found" -> <<52, 48, 52>>
                [] dec = "too_many" -> <<52, 50, 57>> IN
  /\ f.k = "ok" /\ f.kind = "headers"
  /\ SectionAdmissible(SubSeq(e.bytes, f.pfrom, f.pfrom + f.plen - 1))
  /\ PairOf(d.lines, S_status) = want
  /\ (dec \in {"forbidden", "not_found", "too_many"} => e.end.k = "fin" /\ f.n = Len(e.bytes))

\* a datagram on the wire is the session's quarter stream id (shortest form) followed by exactly
\* a payload the application sent - nothing before, nothing after
DgramsOk(h) ==
  \A i \in Idx(h) : IsEv(h[i], "peer", "rx_dgram") =>
     /\ LET d == DatagramParse(h[i].bytes) IN d.k = "ok" /\ d.sid = Sid(h)
     /\ \E s \in Idx(h) : /\ IsOp(h[s], "app", "send_dgram") /\ h[s].res = "ok" /\ Has(h[s], "bytes")
                           /\ VarintEnc(VShr2(Sid(h))) \o h[s].bytes = h[i].bytes

CodesOk(h) ==
  /\ \A i \in Idx(h) : (IsEv(h[i], "peer", "peer_closed") /\ h[i].why.k = "ApplicationClosed"
                          /\ ~\E j \in Idx(h) : IsOp(h[j], "app", "close"))
        => h[i].why.code[1] = 0 /\ h[i].why.code[2] \in Registry
  /\ \A i \in Idx(h) : (IsOp(h[i], "peer", "stopped") /\ h[i].res.k = "err" /\ h[i].res.err.k = "Stopped")
        => h[i].res.err.code[1] = 0 /\ h[i].res.err.code[2] \in Registry

JudgeC16(h) ==
  LET ctrls == { i \in UniRx(h) : KindOf(h[i]) = "control" } IN
  /\ Cardinality(ctrls) = 1
  /\ \A i \in ctrls : ControlOk(h[i])
  \* (a stream the endpoint reset may reach the peer without its preamble: RESET_STREAM discards data)
  /\ \A i \in UniRx(h) :
       /\ \/ KindOf(h[i]) \in {"control", "qenc", "qdec", "wt", "grease"}
          \/ (KindOf(h[i]) = "more" /\ h[i].end.k \in {"reset", "conn"})
       /\ WtUniOk(h, h[i])
  /\ \A i \in BiRx(h) : WtBiOk(h, h[i])
  /\ DgramsOk(h)
  /\ CodesOk(h)
  /\ IF h[1].role = "client" THEN
       /\ \A i \in Idx(h) : IsEv(h[i], "peer", "rx_request") => (Has(h[i], "bytes") /\ RequestOk(h, h[i]))
       /\ \A i \in Idx(h) : IsEv(h[i], "peer", "raw_accept") => h[i].alpn = S_h3
     ELSE
       \A i \in Idx(h) : (IsEv(h[i], "peer", "rx_stream") /\ Has(h[i], "tag") /\ h[i].tag = "req"
                           /\ \E j \in Idx(h) : IsEv(h[j], "app", "server_decided"))
             => ResponseOk(h, h[i])

Spec == Init /\ [][NextJ(JudgeC16)]_vars
=============================================================================
