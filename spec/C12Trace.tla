------------------------------ MODULE C12Trace ------------------------------
(***************************************************************************)
(* C12 / C13 / C17 / C18 against the running driver: a raw peer performs a  *)
(* short sequence of stream-level events on an established session; the    *)
(* reaction observed from outside (CONNECTION_CLOSE code seen by the peer, *)
(* STOP_SENDING codes, delivery to the application, a liveness probe) must *)
(* be the one H3Rules prescribes for the first offending stream.           *)
(***************************************************************************)
EXTENDS Integers, Sequences, FiniteSets, TLC, Hist, H3Rules, E2EBase

Live(h) == h[CHOOSE i \in Idx(h) : IsEv(h[i], "harness", "setup_done")].app_sid

\* test streams in the order of their first appearance
TagEvents(h) == { i \in Idx(h) : h[i].src = "peer" /\ h[i].ev \in {"peer_open", "peer_write", "peer_end"}
                                  /\ Has(h[i], "tag") /\ h[i].tag \notin {"probe", "hs", "in0"} }
Tags(h) == { h[i].tag : i \in TagEvents(h) }
FirstIdx(h, t) == CHOOSE i \in TagEvents(h) : h[i].tag = t /\ \A j \in TagEvents(h) : h[j].tag = t => i <= j
TagSeq(h) == LET ord == SortedSeq({ FirstIdx(h, t) : t \in Tags(h) }) IN [k \in 1..Len(ord) |-> h[ord[k]].tag]

BytesOf(h, t) == CatBytes(h, SortedSeq({ i \in Idx(h) : IsEv(h[i], "peer", "peer_write") /\ h[i].tag = t /\ h[i].res = "ok" }))
EndOf(h, t) ==
  LET ends == { i \in Idx(h) : IsEv(h[i], "peer", "peer_end") /\ h[i].tag = t } IN
  IF ends = {} THEN "open" ELSE h[CHOOSE i \in ends : \A j \in ends : i <= j].a
DirOf(h, t) ==
  IF t \in {"ctrl"} THEN "ctrl" ELSE IF t = "req" THEN "req" ELSE IF t = "mctrl" THEN "mctrl"
  ELSE h[CHOOSE i \in Idx(h) : IsEv(h[i], "peer", "peer_open") /\ h[i].tag = t].a

RECURSIVE Outcomes(_, _, _, _)
\* per-stream outcomes in order, threading the critical-stream state, stopping at a close
Outcomes(h, tags, st, acc) ==
  IF tags = <<>> THEN acc
  ELSE LET t == Head(tags)
           bs == BytesOf(h, t)
           end == EndOf(h, t)
           dir == DirOf(h, t)
           o == CASE dir = "ctrl" -> CtrlFrom(bs, 1, end)
                  [] dir = "mctrl" -> CtrlStream(bs, end)
                  [] dir = "req" -> ReqOutcome(bs, end)
                  [] dir = "open_uni" -> UniOutcome(bs, end, st, Live(h))
                  [] dir = "open_bi" -> BiOutcome(bs, end, Live(h)) IN
    IF o.k \in {"close", "free", "session_closed", "pending"} THEN Append(acc, [tag |-> t, o |-> o])
    ELSE Outcomes(h, Tail(tags), IF dir = "open_uni" THEN UniUpd(bs, st) ELSE st,
                  Append(acc, [tag |-> t, o |-> o]))

\* what the raw peer saw of the connection's end (its own end-of-scenario close is "LocallyClosed")
ClosedBySut(h) == { i \in Idx(h) : IsEv(h[i], "peer", "peer_closed") /\ h[i].why.k # "LocallyClosed" }
ProbeOk(h) == \E i \in Idx(h) : IsOp(h[i], "app", "accept_uni") /\ h[i].tag = "probe" /\ h[i].res = "ok"
ProbeDone(h) == \E i \in Idx(h) : IsOp(h[i], "app", "accept_uni") /\ h[i].tag = "probe"

IdOfTag(h, t) == h[CHOOSE i \in Idx(h) : IsEv(h[i], "peer", "peer_open") /\ h[i].tag = t].id
AcceptedId(h, id) ==
  \E i \in Idx(h) : h[i].src = "app" /\ h[i].ev = "op_done" /\ Has(h[i], "op")
        /\ h[i].op \in {"accept_uni", "accept_bi"} /\ h[i].res = "ok" /\ h[i].id = id

StopOf(h, t) == { i \in Idx(h) : IsOp(h[i], "peer", "stopped") /\ h[i].tag = t }

JudgeC12(h) ==
  \E outs \in {Outcomes(h, TagSeq(h), [qenc |-> FALSE, qdec |-> FALSE], <<>>)} :
  \E closed \in {ClosedBySut(h)} :
  /\ Len(outs) >= 1
  /\ LET last == outs[Len(outs)].o IN
     CASE last.k = "free" -> TRUE
       [] last.k = "session_closed" -> TRUE            \* C04's business
       [] last.k = "pending" -> closed = {}
       [] last.k = "close" ->
            /\ closed # {}
            /\ \A i \in closed : h[i].why.k = "ApplicationClosed" /\ h[i].why.code[1] = 0
                                  /\ h[i].why.code[2] \in last.codes
       [] OTHER ->
            \* the connection survives every stream of the scenario
            /\ closed = {}
            /\ (ProbeDone(h) => ProbeOk(h))
            /\ \A k \in 1..Len(outs) :
                 LET t == outs[k].tag  o == outs[k].o IN
                 CASE o.k = "deliver" -> AcceptedId(h, IdOfTag(h, t))
                   [] o.k = "foreign" ->
                        \* never handed to the application; refused with the WebTransport code
                        /\ ~AcceptedId(h, IdOfTag(h, t))
                        /\ \A i \in StopOf(h, t) : h[i].res.k = "err" /\ h[i].res.err.k = "Stopped"
                              /\ h[i].res.err.code = <<0, E_BUFFERED_REJECTED>>
                   [] o.k = "refuse" ->
                        \A i \in StopOf(h, t) : h[i].res.k = "err" /\ h[i].res.err.k = "Stopped"
                   [] OTHER -> TRUE

Spec == Init /\ [][NextJ(JudgeC12)]_vars
=============================================================================
