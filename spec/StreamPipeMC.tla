---------------------------- MODULE StreamPipeMC ----------------------------
EXTENDS StreamPipe
\* uni (0x54) and bidi (0x41) preambles, shortest and non-shortest varint forms
PreQuick == {<<64, 84, 0>>, <<64, 65, 64, 4>>, <<128, 0, 0, 84, 8>>}
PreThorough == PreQuick \cup {<<64, 84, 192, 0, 0, 0, 0, 0, 0, 4>>, <<64, 65, 0>>}
=============================================================================
