------------------------------ MODULE DriverMC ------------------------------
EXTENDS Driver
W3 == [c \in {"a", "b", "c"} |-> IF c = "c" THEN "bi" ELSE "uni"]
W2 == [c \in {"a", "c"} |-> IF c = "c" THEN "bi" ELSE "uni"]
AllCauses == {"peer", "local", "proto", "handles"}
TwoCauses == {"peer", "proto"}
=============================================================================
