------------------------------ MODULE DriverMC  ------------------------------
EXTENDS Driver
W3 == [c \in {"a", "b", "c"} |-> IF c = "c" THEN "bi" ELSE "uni"]
W2 == [c \in {"a", "c"} |-> IF c = "c" THEN "bi" ELSE "uni"]
AllCauses == {"peer", "local", "proto", "session", "handles"}
TwoCauses == {"peer", "proto"}
AllWT == [s \in Streams |-> "wt"]
Foreign3 == [s \in Streams |-> IF s = 3 THEN "foreign" ELSE "wt"]
Foreign2 == [s \in Streams |-> IF s = 2 THEN "foreign" ELSE "wt"]
\* a control-like stream first, a WebTransport stream, a stream of unknown type, and a request-like bidi stream
Mixed == [s \in Streams |-> CASE s = 1 -> "h3" [] s = 3 -> "junk" [] s = 11 -> "h3" [] OTHER -> "wt"]
\* as Mixed, but the second uni stream is a protocol error (e.g. a duplicate control stream)
MixedBad == [s \in Streams |-> CASE s = 1 -> "h3" [] s = 2 -> "bad" [] s = 11 -> "h3" [] OTHER -> "wt"]
=============================================================================
