SPECIFICATION Spec
CONSTANTS
  Payloads <- MCPayloads
  Sids <- MCSids
  Live <- MCLive
  QuicMaxes <- MCQuicMaxes
INVARIANT Inv
CHECK_DEADLOCK FALSE
