------------------------------ MODULE TlsTrace ------------------------------
(***************************************************************************)
(* Trace validation for C10 (pinning verifier), C19 (identities, PEM,       *)
(* digests) and C20 (configuration): one judged line per call / probe.      *)
(***************************************************************************)
EXTENDS Integers, Sequences, FiniteSets, TLC, Json, IOUtils, PinRule, Identity, Config, Strs

Rec == ndJsonDeserialize(IOEnv.TRACE)
VARIABLES l, bad
HasF(e, f) == f \in DOMAIN e

Text(s) == s          \* byte sequences are compared with byte sequences

(* ---------------------------------- C10 --------------------------------- *)
JPin(e) ==
  LET c == [now |-> e.now, period |-> e.period, key |-> e.key, pinned |-> e.hashes \in {"own", "many_own"}]
      want == StepVerdict(c) IN
  /\ ~e.panic
  /\ (e.res = "ok") = Accept(c)
  /\ (e.res = "ok") = (want = "ok")
  /\ (e.res = "err" /\ want \in {"NotValidYet", "Expired"} => e.err = want)

(* ---------------------------------- C19 --------------------------------- *)
JSelfSigned(e) ==
  LET kinds == [i \in 1..Len(e.sans_in) |-> SanKind(e.sans_in[i])]
      valid == \A i \in 1..Len(kinds) : kinds[i] # "invalid" IN
  /\ ~e.panic
  /\ IF ~valid THEN e.res = "err"
     ELSE
       /\ e.res = "ok"
       /\ e.version = 2                                   \* X.509 v3
       /\ e.key_alg = OID_EC /\ e.curve = OID_P256
       /\ e.chain_len = 1 /\ e.key_matches
       /\ Len(e.sans_out) = Len(e.sans_in)
       /\ \A i \in 1..Len(e.sans_in) :
            /\ e.sans_out[i][1] = kinds[i]
            /\ (kinds[i] = "dns" => e.sans_out[i][2] = e.sans_in[i])
            /\ (kinds[i] = "ip" /\ IsIPv4(e.sans_in[i]) => e.sans_out[i][2] = V4Bytes(e.sans_in[i]))
            /\ (kinds[i] = "ip" /\ ~IsIPv4(e.sans_in[i]) => Len(e.sans_out[i][2]) = 16)
       /\ e.nb <= e.na
       /\ CASE e.variant \in {"self_signed", "days14"} ->
                 e.nb \in (e.t_before - 1)..(e.t_after + 1) /\ e.na - e.nb = D14 /\ e.pin_own
            [] e.variant = "days1" -> e.nb \in (e.t_before - 1)..(e.t_after + 1) /\ e.na - e.nb = 86400 /\ e.pin_own
            [] e.variant = "days15" -> e.na - e.nb = 15 * 86400 /\ ~e.pin_own
            [] e.variant = "days365" -> e.na - e.nb = 365 * 86400 /\ ~e.pin_own
            [] e.variant = "nb_days14" -> e.nb = 1790000000 - 5 * 86400 /\ e.na - e.nb = D14
            [] e.variant = "nb_days3" -> e.nb = 1790000000 + 40 * 86400 /\ e.na - e.nb = 3 * 86400
            [] e.variant = "period" -> e.nb = 1790000000 /\ e.na = 1790000777
            [] e.variant = "offset" -> e.nb = 1790000000 /\ e.na = 1790005000

JPemRt(e) == ~e.panic /\ e.res = "ok" /\ e.same /\ e.n_back = e.n

JPemBad(e) ==
  /\ ~e.panic
  /\ IF e.kind \in {"random_byte"} THEN e.res \in {"ok", "err"}         \* one changed byte may still be a valid file
     \* documented: a file without any certificate section loads as an empty chain
     ELSE IF e.what = "chain" /\ e.kind \in {"empty", "garbage"} THEN e.res \in {"ok", "err"}
     ELSE e.res = "err"
JDerBad(e) ==
  /\ ~e.panic
  /\ IF e.kind = "good" THEN e.res = "ok"
     ELSE IF e.kind = "trailing" THEN e.res \in {"err", "ok"}
     ELSE e.res = "err"

JDigest(e) ==
  LET want == IF e.fmt = "hex" THEN HexOf(e.bytes) ELSE ArrOf(e.bytes) IN
  /\ ~e.panic /\ e.res = "ok"
  /\ e.text = want
  /\ e.back = e.bytes /\ e.auto = e.bytes
  /\ e.display = HexOf(e.bytes)
JDigestBad(e) == ~e.panic /\ e.res = "ok" /\ ~e.hex_ok /\ ~e.arr_ok /\ ~e.auto_ok

(* ---------------------------------- C20 --------------------------------- *)
JBind(e) ==
  LET t == BindTable(e.preset) IN
  /\ e.res = "ok"
  /\ e.family = t.family
  /\ e.port > 0
  /\ IF e.side = "server" THEN
       /\ Fits(t.v4, e.v4) /\ Fits(t.v6, e.v6)
       /\ e.alpn = S_h3 /\ ~e.wrong_alpn_ok
     ELSE
       \* a client socket of one family cannot reach the other one; dual stack reaches both
       /\ Fits(t.v4, e.v4) /\ Fits(t.v6, e.v6)

JIdleCfg(e) == ~e.panic /\ (e.res = "ok") = IdleRepresentable(e.ms)

\* without keep-alive the connection times out no earlier than the idle timeout and within 1.5 s of it;
\* with a keep-alive interval below it the connection is still alive after three idle periods
JIdleEffect(e) ==
  IF e.keepalive_ms = 0 THEN e.end = "TimedOut" /\ e.elapsed_ms >= e.idle_ms - 60 /\ e.elapsed_ms <= e.idle_ms + 1500
  ELSE e.end = "alive"

JMigration(e) == e.alive_after_rebind = e.allow
JReload(e) ==
  /\ e.first_sees_a /\ e.reload_ok /\ e.second_connected /\ e.second_sees_b /\ e.first_still_a /\ e.old_alive
  \* a reload that reports failure has no effect
  /\ e.rebind_taken_fails /\ e.after_failed_connected /\ e.after_failed_sees_b

\* PinRule is a function of (certificate, hash set, now): the same endpoint asking again later gets
\* the answer for the later "now" - whatever was accepted, cached or resumed before
JPinReconnect(e) ==
  /\ e.first_while_valid = "ok" /\ e.second_while_valid = "ok"
  /\ e.same_endpoint_after_expiry = "err"
  /\ e.fresh_endpoint_after_expiry = "err"

Judge(e) ==
  CASE e.ev = "pin" -> JPin(e)
    [] e.ev = "pin_flip" -> ~e.panic /\ e.res = "err"
    [] e.ev = "pin_reconnect" -> JPinReconnect(e)
    \* an untrusted self-signed server is refused by the default policy, whatever SSL_CERT_FILE names
    [] e.ev = "pin_env" -> ~e.panic /\ e.plain = "err" /\ e.with_ssl_cert_file = "err"
    \* PinRule looks at the leaf only (valid P-256 leaves, now inside a 5-day period): accepted iff the LEAF is pinned
    [] e.ev = "pin_chain" -> ~e.panic /\ (e.res = "ok") = e.leaf_pinned
    [] e.ev = "selfsigned" -> JSelfSigned(e)
    [] e.ev = "pem_rt" -> JPemRt(e)
    [] e.ev = "pem_bad" -> JPemBad(e)
    [] e.ev = "der_bad" -> JDerBad(e)
    [] e.ev = "digest" -> JDigest(e)
    [] e.ev = "digest_bad" -> JDigestBad(e)
    [] e.ev = "bind" -> JBind(e)
    [] e.ev = "client_wrong_alpn" -> ~e.connected
    [] e.ev = "idle_cfg" -> JIdleCfg(e)
    [] e.ev = "idle_effect" -> JIdleEffect(e)
    [] e.ev = "migration" -> JMigration(e)
    [] e.ev = "reload" -> JReload(e)
    \* a domain URL connects where the configured resolver says; the server sees the URL's authority
    [] e.ev = "resolver" -> /\ e.explicit_port_connected /\ e.default_port_connected
                            /\ e.explicit_port_authority = S_svc9 /\ e.default_port_authority = S_svc

Init == l = 1 /\ bad = 0
Next ==
  /\ l <= Len(Rec) /\ l' = l + 1
  /\ IF Judge(Rec[l]) THEN bad' = bad ELSE PrintT(<<"MISMATCH", l>>) /\ bad' = bad + 1
Spec == Init /\ [][Next]_<<l, bad>>
Accepted ==
  LET d == TLCGet("stats").diameter IN
  IF d - 1 = Len(Rec) THEN PrintT(<<"VALIDATED", Len(Rec)>>) ELSE PrintT(<<"STUCK-AT", d>>) /\ FALSE
=============================================================================
