SPECIFICATION Spec
CONSTANTS
  Preambles <- PreQuick
  MaxPayload1 = 3
  Bytes = {0, 64, 84}
INVARIANT Inv
PROPERTY Complete
CHECK_DEADLOCK FALSE
