---------------------------- MODULE AsyncReadMC ----------------------------
EXTENDS AsyncRead
Alpha == {0, 1, 2, 15, 33, 64, 65}
StringsUpTo(n) == UNION { [1..k -> Alpha] : k \in 0..n }
\* short strings exhaustively + complete frames followed by a tail (over-read bait)
MCInputs == StringsUpTo(4) \cup
  { <<0, 2, 9, 9, 7, 7>>, <<64, 65, 0, 1, 2>>, <<64, 65, 64, 4, 1>>, <<64, 65, 1, 9>>,
    <<15, 3, 0, 0, 0, 4, 0>>, <<33, 1, 5, 0, 0>>, <<4, 2, 8, 1, 0, 0>>, <<128, 0, 0, 0, 1, 0>>,
    <<1, 64, 2, 7, 7>>, <<0, 80, 1>> }
QInputs == StringsUpTo(3) \cup { <<0, 2, 9, 9, 7, 7>>, <<64, 65, 0, 1, 2>>, <<15, 3, 0, 0, 0, 4, 0>>, <<64, 65, 1, 9>> }
AllEofs == {"fin", "pend", "reset", "notconn"}
=============================================================================
