---------------------------- MODULE CodecTrace ----------------------------
(***************************************************************************)
(* Trace validation of the sans-IO layer.  Every line of the trace is one   *)
(* call into a real decoder/encoder (input, API used, how the source was   *)
(* chunked, what came back, bytes consumed, bytes allocated, panicked?).   *)
(* Each line is judged against the reference modules; a line that the      *)
(* reference does not explain is printed as MISMATCH and counted, and      *)
(* validation continues with the next line (lines are independent calls).  *)
(***************************************************************************)
EXTENDS Naturals, Sequences, FiniteSets, TLC, Json, IOUtils, Wire, Qpack, Typestate, CodecEnc

Rec == ndJsonDeserialize(IOEnv.TRACE)

VARIABLES l, bad

Has(e, f) == f \in DOMAIN e

(* properties every decoding call must satisfy (C11) *)
Sane(e) ==
  /\ ~e.panic
  /\ ~e.slow
  /\ e.alloc <= 8 * Len(e.in) + 8192
  /\ (Has(e, "polls") => e.polls <= Len(e.in) + Len(e.chunks) + 3)

IsSync(e) == e.api # "async"

(* what the asynchronous source's end must turn an incomplete element into *)
AsyncMore(e, nothingRead) ==
  CASE e.eof = "pend" -> e.res = "pending"
    [] e.eof = "fin" -> e.res = "io" /\ e.e = (IF nothingRead THEN "immfin" ELSE "unexfin")
    [] e.eof = "reset" -> e.res = "io" /\ e.e = "reset"
    [] e.eof = "notconn" -> e.res = "io" /\ e.e = "notconn"

(* ------------------------------- varint -------------------------------- *)
JVarint(e) ==
  LET r == VarintAt(e.in, 1) IN
  IF r.k = "ok" THEN e.res = "ok" /\ e.val = r.val /\ e.used = r.n
  ELSE IF IsSync(e) THEN e.res = "more" /\ e.used = 0
  ELSE AsyncMore(e, Len(e.in) = 0)

(* ------------------------------- frames -------------------------------- *)
PayloadMatches(o, bs, from, len) ==
  /\ o.plen = len
  /\ IF Has(o, "payload") THEN o.payload = SubSeq(bs, from, from + len - 1)
     ELSE /\ len > 8
          /\ o.phead = SubSeq(bs, from, from + 7)
          /\ o.ptail = SubSeq(bs, from + len - 8, from + len - 1)

FrameFieldsMatch(o, f, bs) ==
  /\ o.kind = f.kind
  /\ o.type = f.type
  /\ o.sid = f.sid
  /\ PayloadMatches(o, bs, f.pfrom, f.plen)

JFrame(e) ==
  LET f == FrameAt(e.in, 1) IN
  \* an unknown type is reported as such by this layer (documented error), and only once the
  \* whole frame has been consumed: callers skip it by simply reading the next frame, so
  \* reporting it earlier (or for a frame whose length is refused) desynchronises the stream
  IF f.kind = "unknown" THEN
    \/ f.k = "ok" /\ e.res = "err" /\ e.e = "unknown"
         /\ (IF e.api = "frombuf" THEN e.used = 0 ELSE e.used = f.n)
    \/ f.k = "err" /\ e.res = "err" /\ e.e = f.e /\ (e.api = "frombuf" => e.used = 0)
    \/ f.k = "more" /\ IsSync(e) /\ e.res = "more" /\ (e.api = "frombuf" => e.used = 0)
    \/ f.k = "more" /\ ~IsSync(e) /\ AsyncMore(e, Len(e.in) = 0)
  ELSE IF f.k = "ok" THEN
    e.res = "ok" /\ FrameFieldsMatch(e, f, e.in) /\ e.used = f.n
  ELSE IF f.k = "err" THEN
    /\ e.res = "err" /\ e.e = f.e
    /\ (e.api = "frombuf" => e.used = 0)
  ELSE \* more
    IF IsSync(e) THEN e.res = "more" /\ (e.api = "frombuf" => e.used = 0)
    ELSE AsyncMore(e, Len(e.in) = 0)

(* --------------------------- stream headers ---------------------------- *)
JShdr(e) ==
  LET h == StreamHeaderAt(e.in, 1) IN
  IF h.k = "ok" THEN
    e.res = "ok" /\ e.kind = h.kind /\ e.type = h.type /\ e.sid = h.sid /\ e.used = h.n
  ELSE IF h.k = "err" THEN
    e.res = "err" /\ e.e = h.e /\ (e.api = "frombuf" => e.used = 0)
  ELSE IF IsSync(e) THEN e.res = "more" /\ (e.api = "frombuf" => e.used = 0)
  ELSE AsyncMore(e, Len(e.in) = 0)

(* the unidirectional preamble reader of the stream typestate *)
JUniUp(e) ==
  LET h == StreamHeaderAt(e.in, 1) IN
  IF h.k = "ok" THEN
    e.res = "ok" /\ e.kind = h.kind /\ e.type = h.type /\ e.sid = h.sid /\ e.used = h.n
  ELSE IF h.k = "err" THEN
    e.res = "err" /\ e.code = (IF h.e = "sid" THEN E_ID ELSE E_STREAM_CREATION)
  ELSE IF IsSync(e) THEN e.res = "more"
  ELSE CASE e.eof = "pend" -> e.res = "pending"
         [] e.eof = "fin" -> IF Len(e.in) = 0 THEN e.res = "io" /\ e.e = "immfin"
                             ELSE \/ e.res = "err" /\ e.code = E_FRAME
                                  \/ e.res = "io" /\ e.e = "unexfin"
         [] e.eof = "reset" -> e.res = "io" /\ e.e = "reset"
         [] e.eof = "notconn" -> e.res = "io" /\ e.e = "notconn"

(* ------------------------------ typestates ----------------------------- *)
RECURSIVE TsWalk(_, _, _, _, _)
\* i: first unconsumed index; seen: "none" | "skip" | "frames"; j: entry of e.out
TsWalk(e, bs, i, seen, j) ==
  IF j > Len(e.out) THEN FALSE
  ELSE LET o == e.out[j]
           r == ReadOne(e.role, bs, i, seen)
           last == j = Len(e.out)
           keeps == e.api \in {"frombuf", "incr"} => o.used = i - 1 IN
    CASE r.k = "any" -> TRUE
      [] r.k = "frame" ->
           /\ o.res = "ok" /\ FrameFieldsMatch(o, r.f, bs) /\ o.used = r.next - 1
           /\ TsWalk(e, bs, r.next, r.seen, j + 1)
      [] r.k = "either" ->
           \/ /\ o.res = "ok" /\ FrameFieldsMatch(o, r.f, bs) /\ o.used = r.next - 1
              /\ TsWalk(e, bs, r.next, "frames", j + 1)
           \/ o.res = "err" /\ o.code \in r.codes /\ last /\ keeps
      [] r.k = "err" -> o.res = "err" /\ o.code \in r.codes /\ last /\ keeps
      [] r.k = "more" ->
           /\ last
           /\ IF IsSync(e) THEN o.res = "more" /\ keeps
              ELSE CASE e.eof = "pend" -> o.res = "pending"
                     [] e.eof = "fin" ->
                          IF r.at > Len(bs) THEN o.res = "io" /\ o.e = "immfin"
                          ELSE o.res = "err" /\ o.code = E_FRAME
                     [] e.eof = "reset" -> o.res = "io" /\ o.e = "reset"
                     [] e.eof = "notconn" -> o.res = "io" /\ o.e = "notconn"

JTs(e) == TsWalk(e, e.in, 1, "none", 1)

(* ------------------------------- SETTINGS ------------------------------ *)
JSettings(e) ==
  LET r == SettingsParse(e.in) IN
  IF r.k = "ok" THEN
    /\ e.res = "ok"
    /\ Len(e.map) = Len(r.pairs)
    /\ { <<e.map[j][1], e.map[j][2]>> : j \in 1..Len(e.map) }
         = { <<r.pairs[j][1], r.pairs[j][2]>> : j \in 1..Len(r.pairs) }
  ELSE e.res = "err" /\ e.code \in SettingDefects(e.in, 1, {}, {})

(* -------------------------------- QPACK -------------------------------- *)
JQpack(e) ==
  LET d == SectionDecode(e.in)
      same == { <<e.pairs[j][1], e.pairs[j][2]>> : j \in 1..Len(e.pairs) } = MapOf(d.lines)
      refused == e.res = "err" /\ (e.api = "headers" => e.code = 512) IN
  IF d.k = "err" THEN refused
  ELSE IF d.strict /\ d.ric = 0 /\ d.base = 0 THEN e.res = "ok" /\ same
  ELSE refused \/ (e.res = "ok" /\ same)

(* ------------------------------ datagrams ------------------------------ *)
JDgram(e) ==
  LET d == DatagramParse(e.in) IN
  IF d.k = "err" THEN e.res = "err" /\ e.code = 51
  ELSE e.res = "ok" /\ e.q = d.q /\ e.off = d.off /\ e.tail_ok /\ e.sid = d.sid /\ e.stream = d.sid

(* ------------------------------- capsules ------------------------------ *)
JCapsule(e) ==
  LET c == CapsuleParse(e.in) IN
  IF c.k = "none" THEN e.res = "none"
  ELSE /\ e.res = "close" /\ e.vlen = c.len /\ e.voff = c.from - 1
       /\ LET cl == CloseParse(SubSeq(e.in, c.from, c.from + c.len - 1)) IN
          IF cl.k = "err" THEN e.close = "err"
          ELSE e.close = "ok" /\ e.code = cl.code /\ e.reason = cl.reason

Judge(e) ==
  CASE e.ev = "varint" -> Sane(e) /\ JVarint(e)
    [] e.ev = "frame" -> Sane(e) /\ JFrame(e)
    [] e.ev = "shdr" -> Sane(e) /\ JShdr(e)
    [] e.ev = "uniup" -> Sane(e) /\ JUniUp(e)
    [] e.ev = "ts" -> Sane(e) /\ JTs(e)
    [] e.ev = "settings" -> Sane(e) /\ JSettings(e)
    [] e.ev = "qpack" -> Sane(e) /\ JQpack(e)
    [] e.ev = "dgram" -> Sane(e) /\ JDgram(e)
    [] e.ev = "capsule" -> Sane(e) /\ JCapsule(e)
    [] OTHER -> JudgeEnc(e)

Init == l = 1 /\ bad = 0

(* C15, beyond "each path equals the reference": where the reference leaves a choice ("either"), the     *)
(* paths must still make the SAME choice.  The harness runs the slice, buffered, incremental and         *)
(* asynchronous readers of one typestate on one input back to back: wherever two consecutive runs both   *)
(* produced a frame or an error at the same position, it is the same frame / the same code.  (Positions   *)
(* where one of them is waiting for more input, or reports the source's end, are not comparable.)        *)
Comparable(o) == o.res \in {"ok", "err"}
SameEntry(x, y) ==
  /\ x.res = y.res
  /\ (x.res = "ok" => x.kind = y.kind /\ x.type = y.type /\ x.sid = y.sid /\ x.plen = y.plen /\ x.used = y.used)
  /\ (x.res = "err" => x.code = y.code)
AgreeTs(a, b) ==
  (a.ev = "ts" /\ b.ev = "ts" /\ a.role = b.role /\ a.in = b.in /\ ~a.panic /\ ~b.panic) =>
    \A k \in 1..(IF Len(a.out) < Len(b.out) THEN Len(a.out) ELSE Len(b.out)) :
       (Comparable(a.out[k]) /\ Comparable(b.out[k])) => SameEntry(a.out[k], b.out[k])

Next ==
  /\ l <= Len(Rec)
  /\ l' = l + 1
  /\ IF Judge(Rec[l]) /\ (l = 1 \/ AgreeTs(Rec[l - 1], Rec[l])) THEN bad' = bad
     ELSE PrintT(<<"MISMATCH", l>>) /\ bad' = bad + 1

Spec == Init /\ [][Next]_<<l, bad>>

\* every line was consumed
Accepted ==
  LET d == TLCGet("stats").diameter IN
  IF d - 1 = Len(Rec) THEN PrintT(<<"VALIDATED", Len(Rec)>>)
  ELSE PrintT(<<"STUCK-AT", d>>) /\ FALSE
=============================================================================
