------------------------------ MODULE E2EBase ------------------------------
(***************************************************************************)
(* Skeleton shared by the end-to-end trace specifications.  The trace is a *)
(* sequence of scenarios, each delimited by a "reset" and an "end" event.  *)
(* Events between them are consumed one by one; at "end" the scenario's    *)
(* whole history (the sub-sequence of events) is judged by the monitor     *)
(* predicate Judge, which the extending module supplies.  A rejected   *)
(* scenario is printed (MISMATCH, line of its reset event) and counted;    *)
(* validation continues with the next scenario.                            *)
(***************************************************************************)
EXTENDS Naturals, Sequences, TLC, Json, IOUtils

Rec == ndJsonDeserialize(IOEnv.TRACE)

VARIABLES l, start, bad

Init == l = 1 /\ start = 0 /\ bad = 0

\* Judge is passed as an operator argument (not by INSTANCE substitution: TLC caches
\* the constant Rec only when it is reached through EXTENDS)
NextJ(Judge(_)) ==
  /\ l <= Len(Rec)
  /\ l' = l + 1
  /\ LET e == Rec[l] IN
     IF e.ev = "reset" THEN start' = l /\ bad' = bad
     ELSE IF e.ev = "end" /\ start > 0 THEN
       /\ start' = 0
       /\ IF Judge(SubSeq(Rec, start, l)) THEN bad' = bad
          ELSE PrintT(<<"MISMATCH", start>>) /\ bad' = bad + 1
     ELSE UNCHANGED <<start, bad>>

vars == <<l, start, bad>>

Accepted ==
  LET d == TLCGet("stats").diameter IN
  IF d - 1 = Len(Rec) THEN PrintT(<<"VALIDATED", Len(Rec)>>)
  ELSE PrintT(<<"STUCK-AT", d>>) /\ FALSE
=============================================================================
