----------------------------- MODULE AsyncRead -----------------------------
(***************************************************************************)
(* The asynchronous frame reader, shaped like the code: Frame::read_async   *)
(* = GetVarint (type) ; GetVarint (length or session id) ; GetBuffer        *)
(* (payload), where GetVarint asks the source for ONE byte, learns the      *)
(* varint's size from it, then asks for exactly the missing bytes, and      *)
(* GetBuffer asks for exactly the missing payload bytes.  The source hands  *)
(* out 1..MaxChunk bytes per poll (never more than asked), may answer       *)
(* Pending any number of times, and ends as `Eof` says.                     *)
(*                                                                         *)
(* For every input, every chunking and every end condition TLC checks that  *)
(* the reader's result equals the one-shot reference Wire!FrameAt on the    *)
(* same bytes, that it never consumes a byte beyond the frame (no          *)
(* over-read: what follows a WebTransport signal is application data), and  *)
(* that every poll that delivers bytes makes progress (no spinning).       *)
(* (C15, C11, C01.)                                                        *)
(***************************************************************************)
EXTENDS Naturals, Sequences, FiniteSets, Wire

CONSTANTS Inputs, MaxChunk, Eofs

VARIABLES inp, eof, pos, phase, vbuf, kind, plen, got, result, polls

vars == <<inp, eof, pos, phase, vbuf, kind, plen, got, result, polls>>

Init ==
  /\ inp \in Inputs /\ eof \in Eofs
  /\ pos = 0 /\ phase = "type" /\ vbuf = <<>> /\ kind = "none" /\ plen = 0 /\ got = 0
  /\ result = [k |-> "run"] /\ polls = 0

Avail == Len(inp) - pos

\* how many bytes the current future asks the source for
Want ==
  CASE phase \in {"type", "arg"} -> IF vbuf = <<>> THEN 1 ELSE VarintLen(vbuf[1]) - Len(vbuf)
    [] phase = "payload" -> plen - got

Finish(r) == result' = r /\ phase' = "done"

\* the varint in vbuf is complete: act on it
VarintDone(vb) ==
  LET v == VarintAt(vb, 1).val IN
  IF phase = "type" THEN
    /\ kind' = FrameKindOf(v) /\ phase' = "arg" /\ vbuf' = <<>>
    /\ UNCHANGED <<plen, got, result>>
  ELSE IF kind = "wt" THEN
    /\ IF SessionIdOk(v) THEN Finish([k |-> "ok", kind |-> "wt", sid |-> v, plen |-> 0])
       ELSE Finish([k |-> "err", e |-> "sid"])
    /\ UNCHANGED <<kind, plen, got, vbuf>>
  ELSE IF ~IsSmall(v) \/ Small(v) > MaxPayload THEN
    /\ Finish([k |-> "err", e |-> "toobig"]) /\ UNCHANGED <<kind, plen, got, vbuf>>
  ELSE IF Small(v) = 0 THEN
    /\ Finish(IF kind = "unknown" THEN [k |-> "err", e |-> "unknown"]
              ELSE [k |-> "ok", kind |-> kind, sid |-> V(0), plen |-> 0])
    /\ UNCHANGED <<kind, plen, got, vbuf>>
  ELSE /\ plen' = Small(v) /\ got' = 0 /\ phase' = "payload" /\ vbuf' = <<>>
       /\ UNCHANGED <<kind, result>>

\* one poll that delivers n >= 1 bytes
Deliver ==
  /\ phase # "done" /\ Avail > 0
  /\ \E n \in 1..MaxChunk :
       /\ n <= Want /\ n <= Avail
       /\ pos' = pos + n /\ polls' = polls + 1
       /\ IF phase \in {"type", "arg"} THEN
            LET vb == vbuf \o SubSeq(inp, pos + 1, pos + n) IN
            IF Len(vb) = VarintLen(vb[1]) THEN VarintDone(vb)
            ELSE vbuf' = vb /\ UNCHANGED <<phase, kind, plen, got, result>>
          ELSE
            IF got + n = plen THEN
              /\ Finish(IF kind = "unknown" THEN [k |-> "err", e |-> "unknown"]
                        ELSE [k |-> "ok", kind |-> kind, sid |-> V(0), plen |-> plen])
              /\ got' = got + n /\ UNCHANGED <<kind, plen, vbuf>>
            ELSE got' = got + n /\ UNCHANGED <<phase, kind, plen, vbuf, result>>
  /\ UNCHANGED <<inp, eof>>

\* the source is exhausted: the poll reports the end condition
End ==
  /\ phase # "done" /\ Avail = 0 /\ eof # "pend"
  /\ polls' = polls + 1
  /\ Finish(CASE eof = "fin" -> [k |-> "io", e |-> IF pos = 0 THEN "immfin" ELSE "unexfin"]
              [] eof = "reset" -> [k |-> "io", e |-> "reset"]
              [] eof = "notconn" -> [k |-> "io", e |-> "notconn"])
  /\ UNCHANGED <<inp, eof, pos, vbuf, kind, plen, got>>

Next == Deliver \/ End
Spec == Init /\ [][Next]_vars /\ WF_vars(Next)

(* ------------------------------ properties ----------------------------- *)
Ref == FrameAt(inp, 1)

\* the asynchronous result is the one-shot result on the same bytes
Agrees ==
  phase = "done" =>
    CASE result.k = "ok" ->
           /\ Ref.k = "ok" /\ Ref.kind = result.kind /\ Ref.plen = result.plen
           /\ Ref.sid = result.sid /\ pos = Ref.n
      [] result.k = "err" /\ result.e = "unknown" ->
           Ref.kind = "unknown" /\ Ref.k = "ok" /\ pos = Ref.n      \* reported after the whole frame
      [] result.k = "err" -> Ref.k = "err" /\ Ref.e = result.e
      [] result.k = "io" -> Ref.k = "more" /\ pos = Len(inp)
                             /\ (result.e = "immfin" <=> (Len(inp) = 0 /\ eof = "fin"))

\* never a byte beyond the frame (whatever follows belongs to someone else)
NoOverRead == Ref.k = "ok" => pos <= Ref.n
\* bounded work: one poll per delivered chunk plus the final one
NoSpin == polls <= pos + 1
Inv == Agrees /\ NoOverRead /\ NoSpin

\* with a source that ends, the reader terminates
Terminates == <>(phase = "done" \/ (Avail = 0 /\ eof = "pend"))
=============================================================================
