SPECIFICATION Spec
CONSTANTS
  FrameLens <- Frames3
  MaxSeg = 3
  NEvents = 3
  Discipline = "persist"
INVARIANTS TypeOK NoTear Bounded
PROPERTY Progress
CHECK_DEADLOCK FALSE
