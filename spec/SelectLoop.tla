----------------------------- MODULE SelectLoop -----------------------------
(***************************************************************************)
(* The frame readers that live INSIDE the worker's select! loop            *)
(* (wtransport/src/driver/mod.rs run_impl / run_control_streams:            *)
(* RemoteSettingsStream::run on the peer's control stream and              *)
(* ConnectStream::run on the established session stream).                  *)
(*                                                                         *)
(* tokio::select! re-creates every branch future on each iteration and     *)
(* drops the losers when one branch completes.  Frame::read_async keeps    *)
(* the bytes it has already taken from the QUIC stream (type, length,      *)
(* partial payload) inside its own future (GetVarint / GetBuffer), so the  *)
(* question is who OWNS that future:                                       *)
(*   "drop"     the future is a temporary of the select! branch (the code  *)
(*              before fix b91be3c): losing an iteration loses the bytes   *)
(*              taken so far and leaves the stream position inside a frame *)
(*   "persist"  the read in progress is stored in the struct and resumed   *)
(*              by the next iteration (the code after the fix)             *)
(*   "task"     a dedicated task owns the read (how accept_uni / accept_bi *)
(*              read preambles and first frames)                           *)
(* TLC shows NoTear and Progress for "persist" and "task" under every      *)
(* segmentation of the stream and every placement of other loop events,    *)
(* and produces the tearing schedule for "drop" (finding D6).  The         *)
(* conformance side is C05: the same cut x injected-event schedules run    *)
(* against the real driver.                                                *)
(***************************************************************************)
EXTENDS Naturals, Sequences, FiniteSets

CONSTANTS
  FrameLens,      \* lengths of the frames the peer writes on the stream, in order
  MaxSeg,         \* the network delivers 1..MaxSeg bytes at a time
  NEvents,        \* completions of OTHER select! branches that may occur (datagram, new stream, ...)
  Discipline      \* "drop" | "persist" | "task"

Total == LET S[i \in 0..Len(FrameLens)] == IF i = 0 THEN 0 ELSE S[i - 1] + FrameLens[i] IN S[Len(FrameLens)]

VARIABLES
  arrived,    \* bytes of the stream delivered by the network so far
  held,       \* bytes of the current frame already taken from the stream and living in the read future
  parsed,     \* frames handed to the loop body so far
  torn,       \* the stream position is inside a frame whose beginning was thrown away
  events      \* other-branch completions so far

vars == <<arrived, held, parsed, torn, events>>

Consumed == LET S[i \in 0..parsed] == IF i = 0 THEN 0 ELSE S[i - 1] + FrameLens[i] IN S[parsed] + held

Init == arrived = 0 /\ held = 0 /\ parsed = 0 /\ torn = FALSE /\ events = 0

Deliver ==
  /\ \E n \in 1..MaxSeg : arrived + n <= Total /\ arrived' = arrived + n
  /\ UNCHANGED <<held, parsed, torn, events>>

\* the read branch is polled: it takes what is there, up to the end of the frame; a complete frame
\* makes the branch win this iteration
ReadPoll ==
  /\ ~torn /\ parsed < Len(FrameLens) /\ arrived > Consumed
  /\ LET need == FrameLens[parsed + 1] - held
         k == IF arrived - Consumed < need THEN arrived - Consumed ELSE need IN
     IF k = need THEN parsed' = parsed + 1 /\ held' = 0
     ELSE held' = held + k /\ UNCHANGED parsed
  /\ UNCHANGED <<arrived, torn, events>>

\* another branch wins an iteration: the losers are dropped
OtherEvent ==
  /\ events < NEvents /\ events' = events + 1
  /\ IF Discipline = "drop" /\ held > 0 THEN torn' = TRUE /\ held' = 0
     ELSE UNCHANGED <<torn, held>>
  /\ UNCHANGED <<arrived, parsed>>

Next == Deliver \/ ReadPoll \/ OtherEvent
Spec == Init /\ [][Next]_vars /\ WF_vars(Deliver) /\ WF_vars(ReadPoll)

TypeOK == arrived \in 0..Total /\ held \in 0..Total /\ parsed \in 0..Len(FrameLens) /\ torn \in BOOLEAN

\* segmentation and other events never change what the loop body sees
NoTear == ~torn
\* bytes are never taken beyond what arrived, nor beyond the current frame
Bounded == Consumed <= arrived /\ (parsed < Len(FrameLens) => held < FrameLens[parsed + 1])
\* every frame the peer wrote reaches the loop body
Progress == <>(parsed = Len(FrameLens))
=============================================================================
