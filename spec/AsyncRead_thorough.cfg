SPECIFICATION Spec
CONSTANTS
  Inputs <- MCInputs
  MaxChunk = 3
  Eofs <- AllEofs
INVARIANT Inv
PROPERTY Terminates
CHECK_DEADLOCK FALSE
