------------------------------ MODULE C08Trace ------------------------------
(***************************************************************************)
(* C08: every stream the peer opens for the session is returned by exactly *)
(* one accept call, with its own bytes - none lost, duplicated or          *)
(* invented - whatever the acceptance pace, the number of accepting tasks  *)
(* and the cancellations.  Each stream carries its own id as payload.      *)
(***************************************************************************)
EXTENDS Integers, Sequences, FiniteSets, TLC, Hist, Wire, E2EBase

Opened(h) == { i \in Idx(h) : h[i].ev = "opened" }
AcceptedEv(h) == { i \in Idx(h) : h[i].ev = "accepted" }

\* the 8-byte big-endian rendering of a 62-bit id
IdBytes(v) == <<v[1] \div P25, (v[1] \div P17) % P8, (v[1] \div P9) % P8, (v[1] \div 2) % P8,
                (v[1] % 2) * P7 + (v[2] \div P24), (v[2] \div P16) % P8, (v[2] \div P8) % P8, v[2] % P8>>

JudgeC08(h) ==
  LET opened == Opened(h)  accepted == AcceptedEv(h) IN
  /\ opened # {}
  \* none duplicated
  /\ \A i, j \in accepted : (h[i].id = h[j].id /\ h[i].kind = h[j].kind) => i = j
  \* none invented, and of the right kind
  /\ \A i \in accepted : \E o \in opened : h[o].id = h[i].id /\ h[o].kind = h[i].kind
  \* its own bytes
  /\ \A i \in accepted : h[i].first = IdBytes(h[i].id)
  \* none lost
  /\ \A o \in opened : \E i \in accepted : h[i].id = h[o].id /\ h[i].kind = h[o].kind
  /\ Cardinality(opened) = Meta(h).n

Spec == Init /\ [][NextJ(JudgeC08)]_vars
=============================================================================
