SPECIFICATION Spec
CONSTANTS
  Uni = {1, 2}
  Bi = {11}
  Stalled = {}
  ClassOf <- Foreign2
  CapUniH3 = 4
  CapUniWT = 4
  CapBiH3 = 1
  CapBiWT = 1
  CapDg = 1
  Callers = {"a", "c"}
  Wants <- W2
  NDg = 1
  MaxCancels = 2
  Causes <- TwoCauses
INVARIANTS ExactlyOnce PermitsSane ResultBeforeClose CauseNotMisattributed
CHECK_DEADLOCK FALSE
