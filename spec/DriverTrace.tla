----------------------------- MODULE DriverTrace -----------------------------
(***************************************************************************)
(* Validates the MECHANISM events recorded from the running driver          *)
(* (hooks under cfg(wtransport_verif), one event per await-free segment of  *)
(* wtransport/src/driver/mod.rs) against the actions of Driver.tla.        *)
(*                                                                         *)
(* The trace file holds segments `m_reset` ... `m_end`, one per connection. *)
(* Every event must be an enabled step of the model with the logged         *)
(* arguments (stream, kind, how the task ended, which caller, session       *)
(* match); the peer's steps, which the endpoint cannot log (a stream being  *)
(* opened, its preamble arriving), are silent steps taken exactly when the  *)
(* next event needs them.  The structural invariants of the model           *)
(* (OnePlace, PermitsSane, ResultBeforeClose, CauseNotMisattributed) are    *)
(* evaluated in every state along the way.                                  *)
(*                                                                         *)
(* Event order.  Worker-side events are emitted before their effect becomes *)
(* visible (t_end before the send into the queue), so they never lag.  One  *)
(* application-side event is emitted AFTER a resource was released:         *)
(* `a_recv` / `d_recv` (the dequeue frees a permit of the application-      *)
(* facing queue that the worker may use before the event is written).  Such *)
(* an event may                                                             *)
(* therefore be consumed up to Look positions early (EarlyRecv); TLC        *)
(* searches for a consistent placement.                                     *)
(***************************************************************************)
EXTENDS Driver, Json, IOUtils

Rec == ndJsonDeserialize(IOEnv.TRACE)
Look == 12

Has(e, f) == f \in DOMAIN e
IdxOf(ev) == { i \in DOMAIN Rec : Rec[i].ev = ev }

\* The model's constants for recorded executions.  None of them is computed by scanning the trace
\* (TLC would do it again at every use):
\*  - stream ids are QUIC stream ids + 1 (0 stays "no stream"): bit 1 of the QUIC id tells the kind
\*  - callers are the slots the projection (lib/mech.py) renames calls to: <<kind, n>>
MaxSlots == 48
TUni == { n \in Nat : n > 0 /\ ((n - 1) \div 2) % 2 = 1 }
TBi == { n \in Nat : n > 0 /\ ((n - 1) \div 2) % 2 = 0 }
TCallers == {"uni", "bi"} \X (1..MaxSlots)
TWants == [c \in TCallers |-> c[1]]
TClass == [s \in {} |-> "wt"]      \* unused by the *As actions

VARIABLES l, taken
tvars == <<vars, l, taken>>

KindName(k) == IF k = 0 THEN "uni" ELSE "bi"
HowName(h) == CASE h = 0 -> "wt" [] h = 1 -> "h3" [] h = 2 -> "bad" [] OTHER -> "junk"
CauseName(k) == CASE k = 0 -> "session" [] k = 1 -> "proto" [] k = 2 -> "peer" [] OTHER -> "handles"

E == Rec[l]
\* how the most recent task of stream `id` (this connection) ended
LastHow(id, kind) ==
  LET S == { i \in 1..(l - 1) : Rec[i].ev = "t_end" /\ Rec[i].id = id /\ Rec[i].kind = kind } IN
  IF S = {} THEN 99 ELSE Rec[CHOOSE i \in S : \A j \in S : j <= i].how
Consume == l' = l + 1 /\ UNCHANGED taken
Stay == UNCHANGED <<l, taken>>

ResetAll ==
  /\ opened' = <<>> /\ pre' = {} /\ dgSent' = 0
  /\ pulled' = {} /\ tasks' = {} /\ h3q' = [k \in {"uni", "bi"} |-> <<>>] /\ dgSlot' = 0
  /\ chUni' = <<>> /\ chBi' = <<>> /\ chDg' = 0
  /\ cs' = [c \in Callers |-> "idle"] /\ lockUni' = {} /\ lockBi' = {}
  /\ delivered' = {} /\ refused' = {} /\ dgGot' = 0 /\ cancels' = 0
  /\ result' = "none" /\ quic' = "open" /\ wpc' = "loop" /\ cause' = "none"

\* the silent counterpart of PeerPreamble: the bytes may have arrived before the connection was closed and
\* are still in the stream's buffer when the task reads them, so no condition on `quic` here
ArrivedEarlier(s) ==
  /\ s \in SeqToSet(opened) /\ s \notin pre
  /\ pre' = pre \cup {s}
  /\ UNCHANGED <<opened, dgSent, workV, chanV, appV, endV>>

\* the event at position l, judged
Step ==
  /\ l <= Len(Rec) /\ l \notin taken
  /\ CASE E.ev = "m_reset" -> ResetAll /\ l' = l + 1 /\ taken' = {}
       [] E.ev = "m_end" -> UNCHANGED vars /\ Consume
       [] E.ev = "w_start" ->
            \* the capacities the code runs with are the model's constants
            /\ E.uni_h3 = CapUniH3 /\ E.uni_wt = CapUniWT /\ E.bi_h3 = CapBiH3 /\ E.bi_wt = CapBiWT /\ E.dg = CapDg
            /\ UNCHANGED vars /\ Consume
       [] E.ev = "w_pull" ->
            IF E.id \notin SeqToSet(opened) THEN PeerOpen(E.id) /\ Stay            \* silent: the peer opened it
            ELSE WAccept(KindName(E.kind)) /\ NextOf(KindName(E.kind)) = E.id /\ Consume
       [] E.ev = "t_end" ->
            IF E.how \in {0, 1, 2} /\ E.id \notin pre THEN ArrivedEarlier(E.id) /\ Stay  \* silent: its preamble arrived
            ELSE TaskDoneAs(E.id, HowName(E.how)) /\ Consume
       [] E.ev = "w_h3" ->
            \* FIFO: the item taken is the oldest one; it is an Err item exactly if that task ended "bad"
            /\ h3q[KindName(E.kind)] # <<>>
            /\ (Has(E, "id") /\ E.bad = 0 => Head(h3q[KindName(E.kind)]) = E.id)
            /\ (E.bad = 1) = (LastHow(Head(h3q[KindName(E.kind)]), E.kind) = 2)
            /\ WHandleH3As(KindName(E.kind), E.bad = 1) /\ Consume
       [] E.ev = "a_call" -> Call(E.call) /\ Consume
       [] E.ev = "a_lock" -> Lock(E.call) /\ Consume
       [] E.ev = "a_recv" ->
            /\ Ch(Wants[E.call]) # <<>> /\ Head(Ch(Wants[E.call])) = E.id
            /\ RecvAs(E.call, E.match = 1) /\ Consume
       [] E.ev = "a_none" -> RecvClosed(E.call) /\ Consume
       [] E.ev = "a_drop" -> Cancel(E.call) /\ Consume
       \* the datagram path: the worker reserves the (capacity CapDg) slot, reads a datagram, hands it over;
       \* receivers are not modelled as callers - only what they take and when they may see the queue closed
       [] E.ev = "w_dg" ->
            IF dgSlot = dgSent THEN PeerDgram /\ Stay                                  \* silent: the peer sent it
            ELSE WAcceptDg /\ Consume
       [] E.ev = "d_recv" -> RecvDg /\ Consume
       [] E.ev \in {"d_call", "d_lock"} -> UNCHANGED vars /\ Consume
       [] E.ev = "d_none" -> wpc = "done" /\ result # "none" /\ UNCHANGED vars /\ Consume
       [] E.ev = "w_exit" ->
            IF wpc = "failing" /\ cause = CauseName(E.cause) THEN UNCHANGED vars /\ Consume   \* left through an Err item
            ELSE Arise(CauseName(E.cause)) /\ Consume
       [] E.ev = "w_closed_quic" -> WCloseQuic /\ Consume
       [] E.ev = "w_result" -> ResultSet /\ Consume
       [] E.ev = "w_done" -> DropSenders /\ Consume

\* an event consumed early is skipped when its position is reached
Skip == l <= Len(Rec) /\ l \in taken /\ l' = l + 1 /\ taken' = taken \ {l} /\ UNCHANGED vars

\* a dequeue whose event was written late: no segment boundary in between
EarlyRecv ==
  /\ l <= Len(Rec)
  /\ \E j \in (l + 1)..(IF l + Look < Len(Rec) THEN l + Look ELSE Len(Rec)) :
       /\ j \notin taken /\ Rec[j].ev \in {"a_recv", "d_recv"}
       /\ \A k \in l..j : Rec[k].ev # "m_reset"
       /\ IF Rec[j].ev = "d_recv" THEN RecvDg
          ELSE /\ Ch(Wants[Rec[j].call]) # <<>> /\ Head(Ch(Wants[Rec[j].call])) = Rec[j].id
               /\ RecvAs(Rec[j].call, Rec[j].match = 1)
       /\ taken' = taken \cup {j} /\ UNCHANGED l

TInit == Init /\ l = 1 /\ taken = {}
TNext == Step \/ Skip \/ EarlyRecv
TSpec == TInit /\ [][TNext]_tvars

\* ---- acceptance: some behaviour consumes every event -------------------------------------------
\* (checked as the violation of NotDone; Furthest remembers how far any behaviour got)
ASSUME TLCSet(1, 0)
NotDone == l <= Len(Rec)
Track == IF l > TLCGet(1) THEN TLCSet(1, l) ELSE TRUE
Report == PrintT(<<"FURTHEST", TLCGet(1), Len(Rec)>>)

\* ---- the model's structural invariants along recorded executions --------------------------------
TraceInv == OnePlace /\ PermitsSane /\ ResultBeforeClose /\ CauseNotMisattributed
=============================================================================
