------------------------------ MODULE Identity ------------------------------
(***************************************************************************)
(* Reference for generated identities and digests (C19).                   *)
(*  - W3C WebTransport serverCertificateHashes: X.509v3, ECDSA P-256,       *)
(*    validity at most 14 days; RFC 5280 4.2.1.6 subjectAltName entries     *)
(*    typed dNSName / iPAddress.                                           *)
(*  - a subject alternative name that parses as an IPv4 / IPv6 literal is   *)
(*    an iPAddress entry, anything else a dNSName, which must be an IA5     *)
(*    (ASCII) string.                                                      *)
(*  - textual SHA-256 digests: "dotted hex" = 32 two-digit lower-case hex   *)
(*    bytes joined by ':'; "bytes array" = "[b, b, ..., b]" in decimal.     *)
(***************************************************************************)
EXTENDS Integers, Sequences, FiniteSets, SequencesExt

OID_EC == "1.2.840.10045.2.1"
OID_P256 == "1.2.840.10045.3.1.7"
D14 == 1209600

IsDigitB(b) == b \in 48..57
IsHexB(b) == b \in 48..57 \/ b \in 97..102 \/ b \in 65..70

\* split a byte string at a separator byte
RECURSIVE SplitAt(_, _, _, _)
SplitAt(s, sep, i, cur) ==
  IF i > Len(s) THEN <<cur>>
  ELSE IF s[i] = sep THEN <<cur>> \o SplitAt(s, sep, i + 1, <<>>)
  ELSE SplitAt(s, sep, i + 1, Append(cur, s[i]))
Split(s, sep) == SplitAt(s, sep, 1, <<>>)

DecVal(s) == FoldLeft(LAMBDA a, b : IF a > 1000 THEN a ELSE a * 10 + (b - 48), 0, s)

IsV4Part(p) == Len(p) \in 1..3 /\ (\A i \in 1..Len(p) : IsDigitB(p[i])) /\ DecVal(p) <= 255
                /\ (Len(p) > 1 => p[1] # 48)
IsIPv4(s) == LET ps == Split(s, 46) IN Len(ps) = 4 /\ \A i \in 1..4 : IsV4Part(ps[i])
\* a colon and only hex digits / colons: the IPv6 literals used by the tests
IsIPv6(s) == (\E i \in 1..Len(s) : s[i] = 58) /\ (\A i \in 1..Len(s) : IsHexB(s[i]) \/ s[i] = 58)
IsAscii(s) == \A i \in 1..Len(s) : s[i] < 128

SanKind(s) == IF IsIPv4(s) \/ IsIPv6(s) THEN "ip" ELSE IF IsAscii(s) THEN "dns" ELSE "invalid"
V4Bytes(s) == LET ps == Split(s, 46) IN [i \in 1..4 |-> DecVal(ps[i])]

(* ------------------------------- digests ------------------------------- *)
HexDigit(n) == IF n < 10 THEN 48 + n ELSE 87 + n            \* lower case
HexOf(d) == FoldLeft(LAMBDA acc, b : (IF acc = <<>> THEN <<>> ELSE Append(acc, 58))
                                      \o <<HexDigit(b \div 16), HexDigit(b % 16)>>, <<>>, d)
DecOf(n) == IF n < 10 THEN <<48 + n>> ELSE IF n < 100 THEN <<48 + (n \div 10), 48 + (n % 10)>>
            ELSE <<48 + (n \div 100), 48 + ((n \div 10) % 10), 48 + (n % 10)>>
ArrOf(d) == <<91>> \o FoldLeft(LAMBDA acc, b : (IF acc = <<>> THEN <<>> ELSE acc \o <<44, 32>>) \o DecOf(b), <<>>, d) \o <<93>>
=============================================================================
