SPECIFICATION Spec
CONSTANTS
  Depth = 4
  Codes <- OneCode
INVARIANTS Inv Emit
CHECK_DEADLOCK FALSE
