---------------------------- MODULE StreamLifeGen ----------------------------
(***************************************************************************)
(* Generator + model checker for StreamLife: every operation history up to *)
(* Depth over both ends, with every admissible result.  The C06 statements *)
(* are invariants over (state, history).  Each complete history is printed *)
(* once as a script for replay against real endpoints.                     *)
(***************************************************************************)
EXTENDS StreamLife, TLC, Json

CONSTANTS Depth, Codes

VARIABLES st, hist, rdone

Ops == { [side |-> "S", op |-> "write", code |-> NoCode, n |-> 3],
         [side |-> "S", op |-> "finish", code |-> NoCode, n |-> 0],
         [side |-> "S", op |-> "stopped", code |-> NoCode, n |-> 0],
         [side |-> "R", op |-> "read", code |-> NoCode, n |-> 0] }
       \cup { [side |-> "S", op |-> "reset", code |-> c, n |-> 0] : c \in Codes }
       \cup { [side |-> "R", op |-> "stop", code |-> c, n |-> 0] : c \in Codes }

Init == st = InitSt /\ hist = <<>> /\ rdone = FALSE

Step(o) ==
  /\ Len(hist) < Depth
  /\ Enabled(st, o, rdone)
  /\ \E r \in Allowed(st, o) :
       /\ r.k # "any"
       /\ st' = Upd(st, o, r)
       /\ hist' = Append(hist, [o |-> o, r |-> r])
       /\ rdone' = (rdone \/ (o.op = "read" /\ r.k \in {"fin", "Reset"}))
\* results the model leaves open are explored as "no state change"
StepAny(o) ==
  /\ Len(hist) < Depth
  /\ Enabled(st, o, rdone)
  /\ ANY \in Allowed(st, o)
  /\ st' = st /\ rdone' = rdone
  /\ hist' = Append(hist, [o |-> o, r |-> ANY])

Next == \E o \in Ops : Step(o) \/ StepAny(o)
Spec == Init /\ [][Next]_<<st, hist, rdone>>

(* ------------------------- the C06 statements -------------------------- *)
\* a read fails with reset(c) only for the code the sender used
ResetCarriesCode ==
  \A i \in 1..Len(hist) : hist[i].r.k = "Reset" =>
     \E j \in 1..(i-1) : hist[j].o.op = "reset" /\ hist[j].o.code = hist[i].r.code /\ hist[j].r.k = "ok"
\* writes / finish / stopped report stopped(c) only for the code the receiver used
StopCarriesCode ==
  \A i \in 1..Len(hist) : hist[i].r.k = "Stopped" =>
     \E j \in 1..(i-1) : hist[j].o.op = "stop" /\ hist[j].o.code = hist[i].r.code
\* end-of-stream only after finish and with every written byte delivered
EofMeansAll == st.eof => st.sst = "fin" /\ st.rcvd = st.sent
NeverMoreThanSent == st.rcvd <= st.sent
\* finish does not succeed after a settled stop
FinishNotAfterStop ==
  \A i \in 1..Len(hist) : (hist[i].o.op = "finish" /\ hist[i].r.k = "ok") =>
     ~\E j \in 1..(i-1) : hist[j].o.op = "stop"
Inv == ResetCarriesCode /\ StopCarriesCode /\ EofMeansAll /\ NeverMoreThanSent /\ FinishNotAfterStop

\* print each complete operation sequence (results are not part of the script)
Emit ==
  (Len(hist) = Depth \/ ~\E o \in Ops : Enabled(st, o, rdone)) =>
     PrintT(<<"SCN", ToJson([i \in 1..Len(hist) |-> hist[i].o])>>)
=============================================================================
