----------------------------- MODULE StreamLife -----------------------------
(***************************************************************************)
(* One direction of one WebTransport stream: a sending application S       *)
(* (write / finish / reset(c) / stopped()) and a receiving application R   *)
(* (read-to-end / stop(c)), with every step settled before the next one    *)
(* (the scripts insert barriers).  RFC 9000 3: RESET_STREAM(c) aborts the  *)
(* sending part and the receiver may discard data; STOP_SENDING(c) asks    *)
(* the sender to stop; a stream is finished once all data and the FIN are  *)
(* acknowledged.                                                           *)
(*                                                                         *)
(* Allowed(st, op) is the set of results an operation may report in state  *)
(* st ("any" where neither the statement nor QUIC constrain it); Upd gives *)
(* the next state.  The same two operators drive                           *)
(*   - the generator (every op history to a depth bound, every admissible  *)
(*     result: TLC checks the C06 statements as invariants over them), and *)
(*   - the trace monitor folded over histories recorded from real          *)
(*     endpoints.                                                          *)
(***************************************************************************)
EXTENDS Integers, Sequences, FiniteSets

\* st: sst "open" | "fin" | "reset"; scode; rst "open" | "stopped"; rcode;
\*     sent (bytes written and accepted); rcvd (bytes the reader has seen); eof
InitSt == [sst |-> "open", scode |-> <<0, 0>>, rst |-> "open", rcode |-> <<0, 0>>,
           sent |-> 0, rcvd |-> 0, eof |-> FALSE, lost |-> FALSE, cut |-> FALSE, cutAt |-> 0]

NoCode == <<0, 0>>
R(k, code, n) == [k |-> k, code |-> code, n |-> n]
ANY == R("any", NoCode, 0)

\* op: [side, op, code, n]  (n = bytes to write)
\* (lost: the connection went away under the stream - the receiving side closed it.  A sender whose
\* stream was still open then learns of it from every call: nothing reports success any more.)
Allowed(st, o) ==
  CASE o.op \in {"lose", "cut", "uncut"} -> {R("ok", NoCode, 0)}
    \* (cut: the link drops every packet.  Bytes written since then cannot have been acknowledged,
    \* so a finish cannot report success - "finished" means all data and the FIN are acknowledged -
    \* and, the peer's STOP_SENDING being unable to arrive either, it cannot report a stop: it waits.)
    [] st.cut /\ ~st.lost /\ o.op = "finish" /\ st.sst = "open" /\ st.sent > st.cutAt ->
         {R("timeout", NoCode, 0)}
    [] st.lost /\ o.side = "S" ->
         IF st.sst = "open" /\ o.op \in {"write", "finish", "stopped"} THEN {R("NotConnected", NoCode, 0)} ELSE {ANY}
    [] o.op = "write" ->
         IF st.sst = "open" /\ st.rst = "open" THEN {R("ok", NoCode, o.n)}
         ELSE IF st.sst = "open" /\ st.rst = "stopped" THEN {R("Stopped", st.rcode, 0)}
         ELSE {ANY}
    [] o.op = "finish" ->
         IF st.sst = "open" /\ st.rst = "open" THEN {R("ok", NoCode, 0)}
         ELSE IF st.sst = "open" /\ st.rst = "stopped" THEN {R("Stopped", st.rcode, 0)}
         ELSE {ANY}
    [] o.op = "reset" ->
         IF st.sst = "open" THEN {R("ok", NoCode, 0)} ELSE {ANY}
    [] o.op = "stopped" ->
         IF st.sst = "open" /\ st.rst = "stopped" THEN {R("Stopped", st.rcode, 0)}
         ELSE IF st.sst = "fin" /\ st.rst = "open" THEN {R("Closed", NoCode, 0)}
         ELSE IF st.sst = "fin" /\ st.rst = "stopped" THEN {R("Closed", NoCode, 0), R("Stopped", st.rcode, 0)}
         ELSE IF st.sst = "open" THEN {R("timeout", NoCode, 0)}
         ELSE {ANY}
    [] o.op = "read" ->      \* read to the end: n = bytes obtained by this call
         IF st.sst = "reset" THEN
           \* data not yet read may be discarded by the reset
           { R("Reset", st.scode, n) : n \in 0..(st.sent - st.rcvd) }
         ELSE IF st.sst = "fin" THEN {R("fin", NoCode, st.sent - st.rcvd)}
         ELSE {R("timeout", NoCode, st.sent - st.rcvd)}
    [] o.op = "stop" -> {R("ok", NoCode, 0)}

Upd(st, o, r) ==
  CASE o.op = "write" /\ r.k = "ok" -> [st EXCEPT !.sent = @ + r.n]
    [] o.op = "finish" /\ r.k = "ok" /\ st.sst = "open" -> [st EXCEPT !.sst = "fin"]
    [] o.op = "reset" /\ r.k = "ok" /\ st.sst = "open" -> [st EXCEPT !.sst = "reset", !.scode = o.code]
    [] o.op = "read" -> [st EXCEPT !.rcvd = @ + r.n, !.eof = (r.k = "fin")]
    [] o.op = "stop" /\ st.rst = "open" -> [st EXCEPT !.rst = "stopped", !.rcode = o.code]
    [] o.op = "lose" -> [st EXCEPT !.lost = TRUE]
    [] o.op = "cut" -> [st EXCEPT !.cut = TRUE, !.cutAt = st.sent]
    [] o.op = "uncut" -> [st EXCEPT !.cut = FALSE]
    [] OTHER -> st

\* which operations the script may still issue (handles consumed by stop; one read-to-end
\* after which the reader is done when it saw fin or reset)
Enabled(st, o, rdone) ==
  CASE o.op \in {"read", "stop"} -> st.rst = "open" /\ ~rdone
    [] OTHER -> TRUE

\* does a reported result r fit one of the allowed ones?
Fits(allowed, r) ==
  \/ ANY \in allowed
  \/ \E a \in allowed : a.k = r.k /\ a.code = r.code /\ a.n = r.n
=============================================================================
