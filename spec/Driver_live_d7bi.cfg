SPECIFICATION Spec
CONSTANTS
  Uni = {1}
  Bi = {11, 12}
  Stalled = {11}
  ClassOf <- AllWT
  CapUniH3 = 4
  CapUniWT = 4
  CapBiH3 = 1
  CapBiWT = 1
  CapDg = 1
  Callers = {"a", "c"}
  Wants <- W2
  NDg = 1
  MaxCancels = 2
  Causes = {}
PROPERTIES AllHealthyDelivered
CHECK_DEADLOCK FALSE
