------------------------------ MODULE C01Trace ------------------------------
(***************************************************************************)
(* C01: the receiving application reads exactly the bytes the sending      *)
(* application wrote, in order, then end-of-stream; the preamble (stream   *)
(* type / signal value + session id) is never visible and never swallows   *)
(* payload.  Judged per scenario history:                                  *)
(*  - every completed read by a wtransport endpoint is compared with what  *)
(*    the writer of that stream id wrote (a wtransport endpoint writing a  *)
(*    position-determined pattern, or a raw peer whose wire bytes are      *)
(*    split into preamble + payload by the reference parsers);             *)
(*  - every stream a wtransport endpoint opened and a raw peer received is *)
(*    compared with reference preamble ++ written pattern.                 *)
(***************************************************************************)
EXTENDS Integers, Sequences, FiniteSets, TLC, Hist, Wire, E2EBase

Sides == {"app", "app2"}
OpenOps == {"open_uni", "open_bi"}
AcceptOps == {"accept_uni", "accept_bi"}

\* events that bind a (side, tag) to a stream id
Binds(h) == { i \in Idx(h) :
                \/ (h[i].src \in Sides /\ h[i].ev = "op_done" /\ Has(h[i], "op")
                      /\ h[i].op \in OpenOps \cup AcceptOps /\ h[i].res = "ok")
                \/ (IsEv(h[i], "peer", "peer_open") /\ h[i].res = "ok") }

BindOf(h, who, tag) ==
  LET c == { i \in Binds(h) : h[i].src = who /\ h[i].tag = tag } IN
  IF c = {} THEN 0 ELSE CHOOSE i \in c : TRUE

\* the other binding of the same stream id (the far end), 0 if none
FarEnd(h, b) ==
  LET c == { i \in Binds(h) : i # b /\ h[i].id = h[b].id /\ h[i].src # h[b].src } IN
  IF c = {} THEN 0 ELSE CHOOSE i \in c : TRUE

WritesOf(h, who, tag) ==
  SortedSeq({ i \in Idx(h) : IsOp(h[i], who, "write") /\ h[i].tag = tag })
Finished(h, who, tag) ==
  \E i \in Idx(h) : IsOp(h[i], who, "finish") /\ h[i].tag = tag /\ h[i].res.k = "ok"

PeerWritesOf(h, tag) ==
  SortedSeq({ i \in Idx(h) : IsEv(h[i], "peer", "peer_write") /\ h[i].tag = tag /\ h[i].res = "ok" })
PeerFinished(h, tag) ==
  \E i \in Idx(h) : IsEv(h[i], "peer", "peer_end") /\ h[i].tag = tag /\ h[i].a = "fin"

IsBidiBind(e) == (Has(e, "op") /\ e.op \in {"open_bi", "accept_bi"}) \/ (Has(e, "a") /\ e.a = "open_bi")

\* a read by a wtransport endpoint of a stream whose writer is a wtransport endpoint
ReadVsApp(h, r, wb) ==
  LET w == h[wb]
      ws == WritesOf(h, w.src, w.tag)
      total == SumOver(h, ws, "written")
      salt == IF ws = <<>> THEN 0 ELSE h[ws[1]].salt IN
  /\ \A k \in 1..Len(ws) : h[ws[k]].salt = salt /\ h[ws[k]].res.k = "ok"
  /\ r.len <= total
  /\ r.salt = salt /\ r.pat_upto = r.len
  /\ DataIs(r, <<>>, r.len, salt)
  /\ (r.end.k = "fin" => r.len = total /\ \E i \in Idx(h) : IsOp(h[i], w.src, "finish") /\ h[i].tag = w.tag)
  /\ (Finished(h, w.src, w.tag) => r.end.k = "fin")

\* a read by a wtransport endpoint of a stream a raw peer opened and wrote
ReadVsPeer(h, r, wb) ==
  LET w == h[wb]
      wire == CatBytes(h, PeerWritesOf(h, w.tag))
      pre == IF IsBidiBind(w) THEN FrameAt(wire, 1) ELSE StreamHeaderAt(wire, 1)
      payload == SubSeq(wire, pre.n + 1, Len(wire)) IN
  /\ pre.k = "ok" /\ pre.kind = "wt"
  /\ Has(r, "bytes")
  /\ r.len <= Len(payload)
  /\ r.bytes = SubSeq(payload, 1, r.len)
  /\ (r.end.k = "fin" => r.len = Len(payload) /\ PeerFinished(h, w.tag))
  /\ (PeerFinished(h, w.tag) => r.end.k = "fin")

\* return direction of a bidirectional stream: the acceptor writes, the opener reads
\* (no preamble in that direction)
Reads(h) == { i \in Idx(h) : h[i].src \in Sides /\ h[i].ev = "op_done" /\ Has(h[i], "op")
                              /\ h[i].op = "read" /\ h[i].res = "done" }

ReadOk(h, i) ==
  LET r == h[i]
      rb == BindOf(h, r.src, r.tag) IN
  /\ rb # 0
  /\ LET wb == FarEnd(h, rb) IN
     /\ wb # 0
     /\ IF h[wb].src = "peer" THEN
          IF h[rb].op \in AcceptOps THEN ReadVsPeer(h, r, wb)
          ELSE \* the wtransport side opened it, the raw peer answers on its half: raw bytes
               LET wire == CatBytes(h, PeerWritesOf(h, h[wb].tag)) IN
               Has(r, "bytes") /\ r.bytes = SubSeq(wire, 1, r.len)
        ELSE ReadVsApp(h, r, wb)

\* streams opened by a wtransport endpoint as seen by the raw peer
PeerRx(h) == { i \in Idx(h) : IsEv(h[i], "peer", "rx_stream")
                 /\ \E b \in Binds(h) : h[b].src \in Sides /\ h[b].op \in OpenOps /\ h[b].id = h[i].id }

Sid(h) == LET c == { i \in Idx(h) : IsEv(h[i], "harness", "setup_done") } IN h[CHOOSE i \in c : TRUE].app_sid

PeerRxOk(h, i) ==
  LET x == h[i]
      b == CHOOSE b \in Binds(h) : h[b].src \in Sides /\ h[b].op \in OpenOps /\ h[b].id = x.id
      w == h[b]
      ws == WritesOf(h, w.src, w.tag)
      total == SumOver(h, ws, "written")
      salt == IF ws = <<>> THEN 0 ELSE h[ws[1]].salt
      pre == IF w.op = "open_bi" THEN VarintEnc(V(65)) \o VarintEnc(Sid(h))
             ELSE VarintEnc(V(84)) \o VarintEnc(Sid(h)) IN
  /\ x.len <= Len(pre) + total
  /\ (Finished(h, w.src, w.tag) => x.end.k = "fin" /\ DataIs(x, pre, total, salt))
  /\ (x.end.k = "fin" => DataIs(x, pre, total, salt))

\* every scripted accept and read happened: a stream that never surfaces, or surfaces without
\* being readable, has lost all its bytes
AllDelivered(h) ==
  \A i \in Idx(h) : (h[i].src \in Sides /\ h[i].ev = "op_done" /\ Has(h[i], "op")) =>
     /\ (h[i].op \in AcceptOps => h[i].res = "ok")
     /\ (h[i].op = "read" => h[i].res = "done")

JudgeC01(h) ==
  /\ Reads(h) \cup PeerRx(h) # {}
  /\ AllDelivered(h)
  /\ \A i \in Reads(h) : ReadOk(h, i)
  /\ \A i \in PeerRx(h) : PeerRxOk(h, i)

Spec == Init /\ [][NextJ(JudgeC01)]_vars
=============================================================================
