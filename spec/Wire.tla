------------------------------- MODULE Wire -------------------------------
(***************************************************************************)
(* Reference definitions of the wire formats used by WebTransport over     *)
(* HTTP/3, written from RFC 9000 (sec. 16, variable-length integers),        *)
(* RFC 9114 (frames, unidirectional stream types, SETTINGS, error codes),  *)
(* RFC 9297 (HTTP datagrams, capsules), RFC 9220/8441 (extended CONNECT)   *)
(* and draft-ietf-webtrans-http3 (stream signal 0x41, stream type 0x54,    *)
(* CLOSE_WEBTRANSPORT_SESSION 0x2843, error codes).                        *)
(*                                                                         *)
(* Pure operators, no variables.  62-bit values are pairs <<hi, lo>> of    *)
(* 31-bit halves because TLC integers are 32-bit signed.  Byte strings are *)
(* sequences over 0..255; parsers take (bs, i): parse at 1-based index i.  *)
(***************************************************************************)
EXTENDS Naturals, Sequences, SequencesExt

P7  == 128
P8  == 256
P9  == 512
P16 == 65536
P17 == 131072
P24 == 16777216
P25 == 33554432
P29 == 536870912
P30 == 1073741824
M31 == 2147483647            \* 2^31 - 1, the largest TLC integer

Byte == 0..255

(* ------------------------- 62-bit values ------------------------------- *)
V(n) == <<0, n>>
IsSmall(v) == v[1] = 0
Small(v) == v[2]
VLt(a, b) == a[1] < b[1] \/ (a[1] = b[1] /\ a[2] < b[2])
VLe(a, b) == a = b \/ VLt(a, b)
VMod4(v) == v[2] % 4
\* 2^31 = 2 (mod 31) because 2^5 = 1 (mod 31)
VMod31(v) == ((v[1] % 31) * 2 + (v[2] % 31)) % 31
VMax == <<M31, M31>>                        \* 2^62 - 1
IsV62(v) == v[1] \in 0..M31 /\ v[2] \in 0..M31

\* v >> 2
VShr2(v) == << v[1] \div 4, (v[1] % 4) * P29 + (v[2] \div 4) >>
\* v << 2, defined when v <= 2^60 - 1
VShl2(v) == << v[1] * 4 + (v[2] \div P29), (v[2] % P29) * 4 >>
QuarterMax == << P29 - 1, M31 >>            \* 2^60 - 1

(* RFC 9114 7.2.8 / 6.2.3 / 7.2.4.1: reserved ("GREASE") identifiers are  *)
(* of the form 0x1f * N + 0x21.                                            *)
IsGrease(v) == VLe(V(33), v) /\ VMod31(v) = 2

(* ------------------- variable-length integers -------------------------- *)
VarintLen(b) == IF b < 64 THEN 1 ELSE IF b < 128 THEN 2 ELSE IF b < 192 THEN 4 ELSE 8

\* [k |-> "more"]  or  [k |-> "ok", n |-> bytes used, val |-> <<hi,lo>>]
VarintAt(bs, i) ==
  IF i > Len(bs) THEN [k |-> "more"]
  ELSE LET n == VarintLen(bs[i]) IN
    IF i + n - 1 > Len(bs) THEN [k |-> "more"]
    ELSE [k |-> "ok", n |-> n, val |->
      CASE n = 1 -> <<0, bs[i] % 64>>
        [] n = 2 -> <<0, (bs[i] % 64) * P8 + bs[i+1]>>
        [] n = 4 -> <<0, (bs[i] % 64) * P24 + bs[i+1] * P16 + bs[i+2] * P8 + bs[i+3]>>
        [] n = 8 -> << (bs[i] % 64) * P25 + bs[i+1] * P17 + bs[i+2] * P9
                          + bs[i+3] * 2 + (bs[i+4] \div P7),
                       (bs[i+4] % P7) * P24 + bs[i+5] * P16 + bs[i+6] * P8 + bs[i+7] >>]

VarintSize(v) ==
  IF ~IsSmall(v) THEN 8
  ELSE IF v[2] < 64 THEN 1 ELSE IF v[2] < 16384 THEN 2 ELSE IF v[2] < P30 THEN 4 ELSE 8

\* the unique shortest encoding
VarintEnc(v) ==
  LET hi == v[1]  lo == v[2]  n == VarintSize(v) IN
  CASE n = 1 -> <<lo>>
    [] n = 2 -> <<64 + (lo \div P8), lo % P8>>
    [] n = 4 -> <<128 + (lo \div P24), (lo \div P16) % P8, (lo \div P8) % P8, lo % P8>>
    [] n = 8 -> <<192 + (hi \div P25), (hi \div P17) % P8, (hi \div P9) % P8, (hi \div 2) % P8,
                  (hi % 2) * P7 + (lo \div P24), (lo \div P16) % P8, (lo \div P8) % P8, lo % P8>>

(* ----------------------------- frames ---------------------------------- *)
\* RFC 9114 7.2: DATA 0x00, HEADERS 0x01, SETTINGS 0x04; WT draft: 0x41.
FrameKindOf(t) ==
  IF t = V(0) THEN "data" ELSE IF t = V(1) THEN "headers" ELSE IF t = V(4) THEN "settings"
  ELSE IF t = V(65) THEN "wt" ELSE IF IsGrease(t) THEN "grease" ELSE "unknown"

FrameTypeOf(kind) ==
  CASE kind = "data" -> V(0) [] kind = "headers" -> V(1) [] kind = "settings" -> V(4)
    [] kind = "wt" -> V(65)

MaxPayload == 4096   \* the endpoint's announced bound for a buffered frame

SessionIdOk(v) == VMod4(v) = 0      \* client-initiated bidirectional (RFC 9000 2.1)

(* One frame at index i.  An unknown type is ONE unit (type, length,        *)
(* payload) - RFC 9114 9: "MUST ignore".                                    *)
(*  [k |-> "more"]                                                          *)
(*  [k |-> "ok", kind, type, sid, pfrom, plen, n]                           *)
(*  [k |-> "err", e |-> "sid" | "toobig", kind, tn |-> bytes of the type]  *)
FrameAt(bs, i) ==
  LET t == VarintAt(bs, i) IN
  IF t.k = "more" THEN [k |-> "more", tn |-> 0, kind |-> "none"]
  ELSE LET kind == FrameKindOf(t.val)
           a == VarintAt(bs, i + t.n) IN
    IF a.k = "more" THEN [k |-> "more", tn |-> t.n, kind |-> kind]
    ELSE IF kind = "wt" THEN
      IF SessionIdOk(a.val)
      THEN [k |-> "ok", kind |-> kind, type |-> t.val, sid |-> a.val,
            pfrom |-> i + t.n + a.n, plen |-> 0, n |-> t.n + a.n, tn |-> t.n]
      ELSE [k |-> "err", e |-> "sid", kind |-> kind, tn |-> t.n]
    ELSE IF ~IsSmall(a.val) \/ Small(a.val) > MaxPayload
      THEN [k |-> "err", e |-> "toobig", kind |-> kind, tn |-> t.n]
    ELSE LET len == Small(a.val)
             start == i + t.n + a.n IN
      IF start + len - 1 > Len(bs) THEN [k |-> "more", tn |-> t.n, kind |-> kind]
      ELSE [k |-> "ok", kind |-> kind, type |-> t.val, sid |-> V(0),
            pfrom |-> start, plen |-> len, n |-> t.n + a.n + len, tn |-> t.n]

FrameEnc(type, payload) == VarintEnc(type) \o VarintEnc(V(Len(payload))) \o payload
WtFrameEnc(sid) == VarintEnc(V(65)) \o VarintEnc(sid)
FrameSize(type, plen) == VarintSize(type) + VarintSize(V(plen)) + plen

(* ------------------------- stream headers ------------------------------ *)
\* RFC 9114 6.2: control 0x00, push 0x01; RFC 9204: encoder 0x02, decoder 0x03; WT draft: 0x54
StreamKindOf(t) ==
  IF t = V(0) THEN "control" ELSE IF t = V(2) THEN "qenc" ELSE IF t = V(3) THEN "qdec"
  ELSE IF t = V(84) THEN "wt" ELSE IF IsGrease(t) THEN "grease" ELSE "unknown"

\*  [k |-> "more"] | [k |-> "ok", kind, type, sid, n] | [k |-> "err", e |-> "unknown"|"sid"]
StreamHeaderAt(bs, i) ==
  LET t == VarintAt(bs, i) IN
  IF t.k = "more" THEN [k |-> "more", tn |-> 0]
  ELSE LET kind == StreamKindOf(t.val) IN
    IF kind = "unknown" THEN [k |-> "err", e |-> "unknown", tn |-> t.n, type |-> t.val]
    ELSE IF kind = "wt" THEN
      LET a == VarintAt(bs, i + t.n) IN
      IF a.k = "more" THEN [k |-> "more", tn |-> t.n]
      ELSE IF SessionIdOk(a.val)
        THEN [k |-> "ok", kind |-> kind, type |-> t.val, sid |-> a.val, n |-> t.n + a.n, tn |-> t.n]
        ELSE [k |-> "err", e |-> "sid", tn |-> t.n, type |-> t.val]
    ELSE [k |-> "ok", kind |-> kind, type |-> t.val, sid |-> V(0), n |-> t.n, tn |-> t.n]

(* ------------------------------ SETTINGS ------------------------------- *)
\* RFC 9114 7.2.4.1 + 11.2.2: ids 0x00,0x02,0x03,0x04,0x05 are reserved (HTTP/2) -> H3_SETTINGS_ERROR
SettingReserved(id) == id \in {V(0), V(2), V(3), V(4), V(5)}
\* 0x01 QPACK_MAX_TABLE_CAPACITY, 0x06 MAX_FIELD_SECTION_SIZE, 0x07 QPACK_BLOCKED_STREAMS,
\* 0x08 ENABLE_CONNECT_PROTOCOL (RFC 9220), 0x33 H3_DATAGRAM (RFC 9297),
\* 0x2b603742 ENABLE_WEBTRANSPORT (draft), 0xc671706a WEBTRANSPORT_MAX_SESSIONS (draft)
SET_QPACK_CAP == V(1)
SET_MAX_FIELD == V(6)
SET_QPACK_BLOCKED == V(7)
SET_CONNECT == V(8)
SET_DATAGRAM == V(51)
SET_WT == V(727725890)
SET_WT_MAX == <<1, 1181839466>>    \* 0xc671706a = 2^31 + 0x4671706a
SettingKnownIds == {SET_QPACK_CAP, SET_MAX_FIELD, SET_QPACK_BLOCKED, SET_CONNECT, SET_DATAGRAM, SET_WT, SET_WT_MAX}
SettingKept(id) == id \in SettingKnownIds \/ IsGrease(id)

RECURSIVE SettingsFrom(_, _, _, _)
(* parse id/value pairs in bs[i..end]; acc = sequence of <<id,val>> kept.  *)
(*  [k |-> "ok", pairs] | [k |-> "err", e |-> "frame" | "settings"]        *)
SettingsFrom(bs, i, end, acc) ==
  IF i > end THEN [k |-> "ok", pairs |-> acc]
  ELSE LET a == VarintAt(SubSeq(bs, 1, end), i) IN
    IF a.k = "more" THEN [k |-> "err", e |-> "frame"]
    ELSE LET b == VarintAt(SubSeq(bs, 1, end), i + a.n) IN
      IF b.k = "more" THEN [k |-> "err", e |-> "frame"]
      ELSE IF SettingReserved(a.val) THEN [k |-> "err", e |-> "settings"]
      ELSE IF SettingKept(a.val) THEN
        IF \E j \in 1..Len(acc) : acc[j][1] = a.val THEN [k |-> "err", e |-> "settings"]
        ELSE SettingsFrom(bs, i + a.n + b.n, end, Append(acc, <<a.val, b.val>>))
      ELSE SettingsFrom(bs, i + a.n + b.n, end, acc)

SettingsParse(payload) == SettingsFrom(payload, 1, Len(payload), <<>>)

RECURSIVE SettingDefects(_, _, _, _)
\* every defect class present in a SETTINGS payload, scanning past defects:
\* 262 = H3_FRAME_ERROR (truncated pair), 265 = H3_SETTINGS_ERROR (reserved or repeated id)
SettingDefects(bs, i, seenIds, acc) ==
  IF i > Len(bs) THEN acc
  ELSE LET a == VarintAt(bs, i) IN
    IF a.k = "more" THEN acc \cup {262}
    ELSE LET b == VarintAt(bs, i + a.n) IN
      IF b.k = "more" THEN acc \cup {262}
      ELSE SettingDefects(bs, i + a.n + b.n,
             IF SettingKept(a.val) THEN seenIds \cup {a.val} ELSE seenIds,
             IF SettingReserved(a.val) \/ (SettingKept(a.val) /\ a.val \in seenIds)
             THEN acc \cup {265} ELSE acc)

(* ------------------------------ datagrams ------------------------------ *)
\* RFC 9297 2.1: Quarter Stream ID (varint) then payload; the id must be <= 2^60-1
DatagramParse(bs) ==
  LET q == VarintAt(bs, 1) IN
  IF q.k = "more" THEN [k |-> "err"]
  ELSE IF ~VLe(q.val, QuarterMax) THEN [k |-> "err"]
  ELSE [k |-> "ok", q |-> q.val, off |-> q.n, sid |-> VShl2(q.val)]

DatagramEnc(q, payload) == VarintEnc(q) \o payload

(* ------------------------------ capsules ------------------------------- *)
\* RFC 9297 3.2: type (varint), length (varint), value.  0x2843 = CLOSE_WEBTRANSPORT_SESSION
CAPSULE_CLOSE == V(10307)

\* [k |-> "none"] (incomplete or not the close capsule) | [k |-> "close", from, len]
CapsuleParse(bs) ==
  LET t == VarintAt(bs, 1) IN
  IF t.k = "more" THEN [k |-> "none"]
  ELSE IF t.val # CAPSULE_CLOSE THEN [k |-> "none"]
  ELSE LET a == VarintAt(bs, 1 + t.n) IN
    IF a.k = "more" THEN [k |-> "none"]
    ELSE IF ~IsSmall(a.val) THEN [k |-> "none"]
    ELSE IF t.n + a.n + Small(a.val) > Len(bs) THEN [k |-> "none"]
    ELSE [k |-> "close", from |-> 1 + t.n + a.n, len |-> Small(a.val)]

(* UTF-8 well-formedness (RFC 3629 / Unicode table 3-7) as a fold over the bytes. *)
(* State: rem = continuation bytes still expected, lo..hi = range allowed for the  *)
(* next byte (only the first continuation byte is ever restricted), ok.           *)
Utf8Step(st, b) ==
  IF ~st.ok THEN st
  ELSE IF st.rem > 0 THEN
    IF b \in st.lo..st.hi THEN [ok |-> TRUE, rem |-> st.rem - 1, lo |-> 128, hi |-> 191]
    ELSE [ok |-> FALSE, rem |-> 0, lo |-> 0, hi |-> 0]
  ELSE IF b < 128 THEN st
  ELSE IF b \in 194..223 THEN [ok |-> TRUE, rem |-> 1, lo |-> 128, hi |-> 191]
  ELSE IF b = 224 THEN [ok |-> TRUE, rem |-> 2, lo |-> 160, hi |-> 191]
  ELSE IF b \in 225..236 \/ b \in 238..239 THEN [ok |-> TRUE, rem |-> 2, lo |-> 128, hi |-> 191]
  ELSE IF b = 237 THEN [ok |-> TRUE, rem |-> 2, lo |-> 128, hi |-> 159]
  ELSE IF b = 240 THEN [ok |-> TRUE, rem |-> 3, lo |-> 144, hi |-> 191]
  ELSE IF b \in 241..243 THEN [ok |-> TRUE, rem |-> 3, lo |-> 128, hi |-> 191]
  ELSE IF b = 244 THEN [ok |-> TRUE, rem |-> 3, lo |-> 128, hi |-> 143]
  ELSE [ok |-> FALSE, rem |-> 0, lo |-> 0, hi |-> 0]

Utf8Ok(bs) ==
  LET f == FoldLeft(Utf8Step, [ok |-> TRUE, rem |-> 0, lo |-> 128, hi |-> 191], bs) IN
  f.ok /\ f.rem = 0

\* draft-ietf-webtrans-http3: 32-bit code, then a UTF-8 message of at most 1024 bytes
\* code is returned as <<hi,lo>>: a 32-bit value has hi \in {0,1}
CloseParse(value) ==
  IF Len(value) < 4 \/ Len(value) > 4 + 1024 THEN [k |-> "err"]
  ELSE IF ~Utf8Ok(SubSeq(value, 5, Len(value))) THEN [k |-> "err"]
  ELSE [k |-> "ok",
        code |-> << value[1] \div P7,
                    (value[1] % P7) * P24 + value[2] * P16 + value[3] * P8 + value[4] >>,
        reason |-> SubSeq(value, 5, Len(value))]

(* ------------------------------ error codes ---------------------------- *)
\* RFC 9114 8.1, RFC 9204 6, RFC 9297 5.2, draft-ietf-webtrans-http3
ErrCode(name) ==
  CASE name = "H3_DATAGRAM_ERROR" -> 51
    [] name = "H3_NO_ERROR" -> 256
    [] name = "H3_GENERAL_PROTOCOL_ERROR" -> 257
    [] name = "H3_INTERNAL_ERROR" -> 258
    [] name = "H3_STREAM_CREATION_ERROR" -> 259
    [] name = "H3_CLOSED_CRITICAL_STREAM" -> 260
    [] name = "H3_FRAME_UNEXPECTED" -> 261
    [] name = "H3_FRAME_ERROR" -> 262
    [] name = "H3_EXCESSIVE_LOAD" -> 263
    [] name = "H3_ID_ERROR" -> 264
    [] name = "H3_SETTINGS_ERROR" -> 265
    [] name = "H3_MISSING_SETTINGS" -> 266
    [] name = "H3_REQUEST_REJECTED" -> 267
    [] name = "H3_REQUEST_CANCELLED" -> 268
    [] name = "H3_REQUEST_INCOMPLETE" -> 269
    [] name = "H3_MESSAGE_ERROR" -> 270
    [] name = "H3_CONNECT_ERROR" -> 271
    [] name = "H3_VERSION_FALLBACK" -> 272
    [] name = "QPACK_DECOMPRESSION_FAILED" -> 512
    [] name = "QPACK_ENCODER_STREAM_ERROR" -> 513
    [] name = "QPACK_DECODER_STREAM_ERROR" -> 514
    [] name = "WEBTRANSPORT_BUFFERED_STREAM_REJECTED" -> 966049156
    [] name = "WEBTRANSPORT_SESSION_GONE" -> 386759528

=============================================================================
