SPECIFICATION Spec
CONSTANTS
  Nows <- MCNows
  Periods <- MCPeriods
  Keys <- MCKeys
INVARIANTS MachineEqualsRule NoRescue
CHECK_DEADLOCK FALSE
