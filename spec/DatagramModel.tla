---------------------------- MODULE DatagramModel ----------------------------
(***************************************************************************)
(* Datagrams of one session over an unreliable, reordering, non-           *)
(* duplicating channel (RFC 9221 + RFC 9297 2.1: each QUIC datagram starts *)
(* with the quarter stream id of the session).  Sender: the application    *)
(* offers payloads; the size contract compares the payload length with the *)
(* advertised maximum (QUIC limit minus the quarter-id header).  Receiver: *)
(* parses, filters by session, delivers.  Invariants: what is delivered    *)
(* was sent for this session, byte-identical, at most as often as sent;    *)
(* the maximum is never negative / never wraps (C03).                      *)
(***************************************************************************)
EXTENDS Integers, Sequences, FiniteSets, Bags, Wire

CONSTANTS Payloads,      \* set of payload byte strings
          Sids,          \* session ids in play (live one first)
          Live,          \* the receiver's session id
          QuicMaxes      \* possible QUIC datagram size limits (-1 = datagrams unsupported)

VARIABLES quicMax, chan, sentBag, delivered, refused

vars == <<quicMax, chan, sentBag, delivered, refused>>

Hdr(sid) == VarintSize(VShr2(sid))

\* the advertised maximum payload size: "no usable size" (-1) rather than a wrapped value
MaxFor(qm, sid) == IF qm < 0 THEN -1 ELSE IF qm < Hdr(sid) THEN -1 ELSE qm - Hdr(sid)

Init ==
  /\ quicMax \in QuicMaxes
  /\ chan = EmptyBag /\ sentBag = EmptyBag /\ delivered = EmptyBag /\ refused = {}

Send(sid, p) ==
  /\ IF MaxFor(quicMax, sid) >= 0 /\ Len(p) <= MaxFor(quicMax, sid)
     THEN /\ chan' = chan (+) SetToBag({VarintEnc(VShr2(sid)) \o p})
          /\ sentBag' = sentBag (+) SetToBag({<<sid, p>>})
          /\ UNCHANGED refused
     ELSE /\ refused' = refused \cup {<<sid, Len(p)>>}
          /\ UNCHANGED <<chan, sentBag>>
  /\ UNCHANGED <<quicMax, delivered>>

Lose == \E d \in BagToSet(chan) : chan' = chan (-) SetToBag({d}) /\ UNCHANGED <<quicMax, sentBag, delivered, refused>>

Recv ==
  \E d \in BagToSet(chan) :
    /\ chan' = chan (-) SetToBag({d})
    /\ LET r == DatagramParse(d) IN
       IF r.k = "ok" /\ r.sid = Live
       THEN delivered' = delivered (+) SetToBag({SubSeq(d, r.off + 1, Len(d))})
       ELSE UNCHANGED delivered
    /\ UNCHANGED <<quicMax, sentBag, refused>>

Next == (\E sid \in Sids, p \in Payloads : BagCardinality(sentBag) < 3 /\ Send(sid, p)) \/ Lose \/ Recv
Spec == Init /\ [][Next]_vars

\* never altered, merged, truncated, invented, duplicated, or foreign
Integrity ==
  \A p \in BagToSet(delivered) :
    CopiesIn(p, delivered) <= CopiesIn(<<Live, p>>, sentBag)

\* exact size contract
SizeContract ==
  /\ \A r \in refused : MaxFor(quicMax, r[1]) < 0 \/ r[2] > MaxFor(quicMax, r[1])
  /\ \A s \in BagToSet(sentBag) : Len(s[2]) <= MaxFor(quicMax, s[1])
MaxSane == \A sid \in Sids : MaxFor(quicMax, sid) >= -1 /\ (MaxFor(quicMax, sid) >= 0 => MaxFor(quicMax, sid) + Hdr(sid) = quicMax)
Inv == Integrity /\ SizeContract /\ MaxSane
=============================================================================
