------------------------------ MODULE C03Trace ------------------------------
(***************************************************************************)
(* C03: datagrams are delivered byte-identical to what was sent for the    *)
(* same session (loss and reordering allowed; no alteration, invention,    *)
(* duplication or framing bytes), the size contract is exact, and the      *)
(* maximum-size query never fails or yields nonsense.                      *)
(***************************************************************************)
EXTENDS Integers, Sequences, FiniteSets, TLC, Hist, Wire, E2EBase

Sides == {"app", "app2"}
SetupSid(h) == h[CHOOSE i \in Idx(h) : IsEv(h[i], "harness", "setup_done")].app_sid

Sends(h, who) == { i \in Idx(h) : IsOp(h[i], who, "send_dgram") }
OkSends(h, who) == { i \in Sends(h, who) : h[i].res = "ok" }
Recvs(h, who) == { i \in Idx(h) : IsOp(h[i], who, "recv_dgram") /\ h[i].res = "ok" }
PeerSent(h) == { i \in Idx(h) : IsEv(h[i], "peer", "peer_dgram") /\ h[i].res = "ok" }
PeerRx(h) == { i \in Idx(h) : IsEv(h[i], "peer", "rx_dgram") }
MaxQs(h) == { i \in Idx(h) : h[i].src \in Sides /\ h[i].ev = "op_done" /\ Has(h[i], "op") /\ h[i].op = "max_dgram" }

Hdr(sid) == VarintSize(VShr2(sid))

\* the query: never a panic; "no usable size" (-1) exactly when nothing fits
MaxOk(e) ==
  /\ e.res = "ok"
  /\ IF e.quic_max < 0 THEN e.max = -1
     ELSE IF e.quic_max < Hdr(e.sid) THEN e.max = -1
     ELSE e.max = e.quic_max - Hdr(e.sid)

\* the contract, judged against the readings taken immediately before and after the send
SendOk(e) ==
  /\ e.max_before # -2 /\ e.max_after # -2
  /\ e.res \in {"ok", "toolarge", "unsupported", "notconn"}
  /\ (e.res = "ok" => e.len <= e.max_before \/ e.len <= e.max_after)
  /\ (e.res = "toolarge" => e.len > e.max_before \/ e.len > e.max_after)
  /\ (e.max_before >= 0 /\ e.max_after >= 0 /\ e.len <= e.max_before /\ e.len <= e.max_after
        => e.res \in {"ok", "notconn"})

\* payload of a logged datagram-like event as a comparable value
Body(e) == IF Has(e, "bytes") THEN <<e.len, e.bytes>> ELSE <<e.len, e.head, e.tail, e.sum>>

\* raw peer received: quarter-id header ++ a payload the application sent (at most as often)
WireOf(h, i) == \* what a successful application send must look like on the wire
  VarintEnc(VShr2(SetupSid(h))) \o h[i].bytes

PeerRxOk(h) ==
  \A x \in PeerRx(h) :
    /\ Has(h[x], "bytes")
    /\ LET same == { y \in PeerRx(h) : h[y].bytes = h[x].bytes }
           srcs == { s \in OkSends(h, "app") : Has(h[s], "bytes") /\ WireOf(h, s) = h[x].bytes } IN
       Cardinality(same) <= Cardinality(srcs)

\* application received from a raw peer: a payload the peer sent for this session
FromPeer(h, who) ==
  \A r \in Recvs(h, who) :
    /\ h[r].deref_same
    /\ Has(h[r], "bytes")
    /\ LET same == { y \in Recvs(h, who) : h[y].bytes = h[r].bytes }
           srcs == { s \in PeerSent(h) :
                       /\ Has(h[s], "bytes")
                       /\ LET d == DatagramParse(h[s].bytes) IN
                          /\ d.k = "ok" /\ d.sid = SetupSid(h)
                          /\ SubSeq(h[s].bytes, d.off + 1, Len(h[s].bytes)) = h[r].bytes } IN
       Cardinality(same) <= Cardinality(srcs)

\* application received from the other wtransport endpoint
FromApp(h, who, other) ==
  \A r \in Recvs(h, who) :
    /\ h[r].deref_same
    /\ LET same == { y \in Recvs(h, who) : Body(h[y]) = Body(h[r]) }
           srcs == { s \in OkSends(h, other) : Body(h[s]) = Body(h[r]) } IN
       Cardinality(same) <= Cardinality(srcs)

JudgeC03(h) ==
  /\ MaxQs(h) \cup Sends(h, "app") \cup Sends(h, "app2") \cup Recvs(h, "app") \cup Recvs(h, "app2") # {}
  /\ \A i \in MaxQs(h) : MaxOk(h[i])
  /\ \A i \in Sends(h, "app") \cup Sends(h, "app2") : SendOk(h[i])
  \* datagrams of other sessions never disturb this one: the liveness probe of the scenario succeeds
  /\ \A i \in Idx(h) : IsOp(h[i], "app", "accept_uni") => h[i].res = "ok"
  /\ IF h[1].peer = "raw" THEN PeerRxOk(h) /\ FromPeer(h, "app")
     ELSE FromApp(h, "app", "app2") /\ FromApp(h, "app2", "app")

Spec == Init /\ [][NextJ(JudgeC03)]_vars
=============================================================================
