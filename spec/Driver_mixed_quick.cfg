SPECIFICATION Spec
CONSTANTS
  Uni = {1, 2, 3}
  Bi = {11}
  Stalled = {}
  ClassOf <- Mixed
  CapUniH3 = 4
  CapUniWT = 4
  CapBiH3 = 1
  CapBiWT = 1
  CapDg = 1
  Callers = {"a", "c"}
  Wants <- W2
  NDg = 0
  MaxCancels = 2
  Causes = {}
INVARIANTS ExactlyOnce PermitsSane ResultBeforeClose CauseNotMisattributed
CHECK_DEADLOCK FALSE
