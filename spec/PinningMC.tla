----------------------------- MODULE PinningMC -----------------------------
EXTENDS Pinning
D14 == 1209600
MCPeriods == {1, 2, 86400, D14 - 1, D14, D14 + 1, 2 * D14, 315360000}
\* now relative to notBefore: each side of both ends of every period
MCNows == UNION { {-1, 0, 1, p - 1, p, p + 1} : p \in MCPeriods } \cup {-100000, 700000}
MCKeys == {"p256", "p384", "ed25519"}
=============================================================================
