------------------------------ MODULE WireInt ------------------------------
(***************************************************************************)
(* Integer-level twin of the value laws used by Wire.tla, checked by        *)
(* Apalache for ALL 62-bit values (TLC's integers are 32-bit, which is why  *)
(* Wire.tla works on <<hi, lo>> pairs).  A varint encoding is represented   *)
(* by the number its bytes denote in base 256 together with its length.     *)
(***************************************************************************)
EXTENDS Integers

VARIABLE
  \* @type: Int;
  v

Max62 == 4611686018427387903            \* 2^62 - 1
P30 == 1073741824
P6 == 64
P14 == 16384

Size(x) == IF x < P6 THEN 1 ELSE IF x < P14 THEN 2 ELSE IF x < P30 THEN 4 ELSE 8
\* value capacity of an n-byte varint: 2^(8n-2)
Cap(n) == IF n = 1 THEN 64 ELSE IF n = 2 THEN 16384 ELSE IF n = 4 THEN 1073741824 ELSE 4611686018427387904
Tag(n) == IF n = 1 THEN 0 ELSE IF n = 2 THEN 1 ELSE IF n = 4 THEN 2 ELSE 3
\* the number denoted by the n bytes of the encoding of x
EncN(x, n) == Tag(n) * Cap(n) + x
\* decoding: the two most significant bits give the length, the rest the value
LenOf(e, n) == IF e \div Cap(n) = 0 THEN 1 ELSE IF e \div Cap(n) = 1 THEN 2 ELSE IF e \div Cap(n) = 2 THEN 4 ELSE 8
DecN(e, n) == e % Cap(n)

Init == v \in 0..Max62
Next == UNCHANGED v

\* shortest form is unique, decodes to the value, and announces its own length
VarintLaws ==
  LET n == Size(v) IN
  /\ n \in {1, 2, 4, 8}
  /\ v < Cap(n)
  /\ \A m \in {1, 2, 4, 8} : (m < n => v >= Cap(m))            \* no shorter form fits
  /\ DecN(EncN(v, n), n) = v
  /\ LenOf(EncN(v, n), n) = n
  /\ \A m \in {1, 2, 4, 8} : (m >= n => DecN(EncN(v, m), m) = v)   \* longer forms decode to the same value

\* RFC 9000 2.1 stream-id classification and the quarter-stream-id arithmetic (RFC 9297)
IdLaws ==
  LET low == v % 4
      q == v \div 4 IN
  /\ (low = 0) <=> ((v % 2 = 0) /\ ((v \div 2) % 2 = 0))        \* client-initiated AND bidirectional
  /\ q <= 1152921504606846975                                    \* 2^60 - 1
  /\ (low = 0 => q * 4 = v)                                       \* session id -> quarter id -> session id
  /\ q * 4 <= Max62

\* datagram size contract: max + header = QUIC limit, never negative when reported
DgramLaws ==
  \A quic \in 0..65535 :
    LET hdr == Size(v \div 4)
        max == IF quic < hdr THEN -1 ELSE quic - hdr IN
    /\ (max >= 0 => max + hdr = quic)
    /\ max >= -1

Laws == VarintLaws /\ IdLaws
=============================================================================
