----------------------------- MODULE WireIntDg -----------------------------
(* Datagram size contract for all QUIC limits and all session ids (Apalache). *)
EXTENDS Integers
VARIABLES
  \* @type: Int;
  sid,
  \* @type: Int;
  quic
Size(x) == IF x < 64 THEN 1 ELSE IF x < 16384 THEN 2 ELSE IF x < 1073741824 THEN 4 ELSE 8
Init == sid \in 0..4611686018427387903 /\ sid % 4 = 0 /\ quic \in 0..65535
Next == UNCHANGED <<sid, quic>>
Max == IF quic < Size(sid \div 4) THEN -1 ELSE quic - Size(sid \div 4)
Laws ==
  /\ Max >= -1
  /\ (Max >= 0 => Max + Size(sid \div 4) = quic)
  /\ (Max = -1 <=> quic < Size(sid \div 4))
  /\ Size(sid \div 4) \in {1, 2, 4, 8}
=============================================================================
