--------------------------- MODULE SelectLoopInd ---------------------------
(***************************************************************************)
(* SelectLoop.tla for Apalache: the frame reader inside the worker's        *)
(* select! loop, for EVERY list of frame lengths (up to 4 frames of any     *)
(* positive length), every segment size and every number of other events -  *)
(* by an inductive invariant instead of bounded exploration:                *)
(*    apalache-mc check --cinit=CInit --init=Init    --inv=IndInv --length=0 *)
(*    apalache-mc check --cinit=CInit --init=IndInit --inv=IndInv --length=1 *)
(* With Persist = TRUE (the read in progress is owned by the struct: the    *)
(* code since b91be3c) IndInv contains NoTear; with Persist = FALSE the     *)
(* second check fails (D6).                                                 *)
(***************************************************************************)
EXTENDS Integers, Sequences, Apalache

CONSTANTS
  \* @type: Seq(Int);
  FrameLens,
  \* @type: Int;
  MaxSeg,
  \* @type: Bool;
  Persist

VARIABLES
  \* @type: Int;
  arrived,
  \* @type: Int;
  held,
  \* @type: Int;
  parsed,
  \* @type: Bool;
  torn

\* @type: (Int, Int) => Int;
Add(a, x) == a + x
\* bytes of the first k frames
\* @type: Int => Int;
SumTo(k) == ApaFoldSeqLeft(Add, 0, SubSeq(FrameLens, 1, k))
Total == SumTo(Len(FrameLens))
Consumed == SumTo(parsed) + held

CInit ==
  /\ FrameLens = Gen(4)
  /\ \A i \in DOMAIN FrameLens : FrameLens[i] >= 1 /\ FrameLens[i] <= 1000000
  /\ MaxSeg \in 1..1000000
  /\ Persist = TRUE

\* the same with the read owned by the select! branch (the code before the fix): not inductive
CInitDrop ==
  /\ FrameLens = Gen(4)
  /\ \A i \in DOMAIN FrameLens : FrameLens[i] >= 1 /\ FrameLens[i] <= 1000000
  /\ MaxSeg \in 1..1000000
  /\ Persist = FALSE
\* (what NoTear says on its own, for the negative control)
NoTear == ~torn

Init == arrived = 0 /\ held = 0 /\ parsed = 0 /\ torn = FALSE

Deliver ==
  /\ \E n \in 1..MaxSeg : arrived + n <= Total /\ arrived' = arrived + n
  /\ UNCHANGED <<held, parsed, torn>>

ReadPoll ==
  /\ ~torn /\ parsed < Len(FrameLens) /\ arrived > Consumed
  /\ LET need == FrameLens[parsed + 1] - held
         k == IF arrived - Consumed < need THEN arrived - Consumed ELSE need IN
     IF k = need THEN parsed' = parsed + 1 /\ held' = 0
     ELSE held' = held + k /\ UNCHANGED parsed
  /\ UNCHANGED <<arrived, torn>>

OtherEvent ==
  /\ IF ~Persist /\ held > 0 THEN torn' = TRUE /\ held' = 0
     ELSE UNCHANGED <<torn, held>>
  /\ UNCHANGED <<arrived, parsed>>

Next == Deliver \/ ReadPoll \/ OtherEvent

IndInv ==
  /\ arrived >= 0 /\ arrived <= Total
  /\ parsed >= 0 /\ parsed <= Len(FrameLens)
  /\ held >= 0
  /\ (parsed < Len(FrameLens) => held < FrameLens[parsed + 1])
  /\ (parsed = Len(FrameLens) => held = 0)
  /\ Consumed <= arrived                 \* never a byte that has not arrived
  /\ (Persist => ~torn)                  \* NoTear

IndInit ==
  /\ arrived \in Int /\ held \in Int /\ parsed \in Int /\ torn \in BOOLEAN
  /\ IndInv
=============================================================================
