------------------------------ MODULE Pinning ------------------------------
(***************************************************************************)
(* Certificate-hash pinning as the W3C WebTransport serverCertificateHashes *)
(* rule: a leaf is accepted iff its SHA-256 is pinned AND now lies within   *)
(* its validity period AND the period is at most 14 days AND its key is    *)
(* ECDSA P-256.  The verifier is modelled as the code's early-return step   *)
(* machine; the model checker shows that the machine equals the            *)
(* conjunction for every combination of inputs (times to the second around *)
(* every bound), i.e. that no input rescues a failing condition.           *)
(* Times are seconds relative to notBefore.                                *)
(***************************************************************************)
EXTENDS Integers, Sequences, FiniteSets, TLC, PinRule

CONSTANTS Nows, Periods, Keys

VARIABLE c
Init == c \in [now : Nows, period : Periods, key : Keys, pinned : BOOLEAN]
Next == UNCHANGED c
Spec == Init /\ [][Next]_c

MachineEqualsRule == (StepVerdict(c) = "ok") <=> Accept(c)
NoRescue ==
  StepVerdict(c) = "ok" =>
    /\ c.pinned /\ c.key = "p256" /\ c.period <= MaxPeriod /\ c.now \in 0..c.period
=============================================================================
